"""C08 - compact never changes the covered region."""
import itertools
from . import compact_common as cc

ID = 'C08'
LEDGER_FILES = ['a5/core/compact.py', 'a5/core/serialization.py']
MUST_ENTER = [('a5/core/compact.py', 'compact'), ('a5/core/serialization.py', 'is_first_child'), ('a5/core/serialization.py', 'get_stride')]
RULE = ('inputs X: exhaustive antichains of a seed-chosen bounded sub-hierarchy (world; 12 faces; 5 segments of faces A and B; 4 children '
        'of one segment; 4 children of one of those: 2193 x 33 x {other ten faces all / none / one absent} = 868,428 quick, '
        '2193 x 33 x 256 thorough), each presented shuffled, with duplicates and (a third) polluted with ancestors/descendants; '
        'all orders of <=6-cell cases; random large mixed-level sets; sibling groups with one or two members absent in which present members are also listed through all their descendants; spines (a complete partition of the world or of a random cell refined along one path for up to 30 levels, complete or with one leaf removed / partly refined); a share of the lists is passed sorted ascending / descending. Oracle: canon(compact(X)) == canon(X) in the set model, '
        'cross-checked by explicit expansion through cell_to_children and, for bounded spines, by the property own observation set(a5.uncompact(compact(X), R)) == set(a5.uncompact(X, R)). distinct = distinct argument lists; '
        'non-trivial = at least 2 distinct cells')
ASSUMPTIONS = ['hierarchy model built from single-step observations of cell_to_parent (validated by C06)']


def plan(tier, seed):
    n = 16 if tier == 'quick' else 32
    specs = [{'part': 'antichains', 'mod': n, 'rem': i} for i in range(n)]
    specs += [{'part': 'random', 'n': 10 if tier == 'quick' else 150} for _ in range(4 if tier == 'quick' else 16)]
    specs.append({'part': 'perms'})
    return specs


def eval_case(a5, tree, L, ctx, case, expand=False):
    try:
        out = a5.compact(list(L))
    except Exception as e:
        ctx.fail('raises', case, exc=repr(e))
        return None
    try:
        want = tree.canon(L)
        got = tree.canon(out)
    except Exception as e:
        ctx.fail('output_invalid', case, exc=repr(e), out=out[:20])
        return out
    if got != want:
        ctx.fail('region_changed', case, lost=sorted(want - got)[:5], added=sorted(got - want)[:5], out=sorted(out)[:20])
    if expand:
        R = max(tree.res(c) for c in L)
        a, b = tree.expand(L, R), tree.expand(out, R) if all(tree.res(c) <= R for c in out) else None
        ctx.count('expansion_crosschecks')
        if (a == b) != (got == want):
            ctx.note('oracle disagreement canon vs expansion on %r' % (case,))
            ctx.count('oracle_disagreement')
    if out and ctx.rnd.random() < 0.03:
        # hostile caller: edit the list that was handed out, then ask again
        keep = list(out)
        out.reverse()
        out.pop()
        out.append(0)
        try:
            again = a5.compact(list(L))
            ctx.count('edit_result_and_repeat')
            if again != keep or again is out:
                ctx.fail('result_depends_on_edited_earlier_result', case, again=again[:20], before=keep[:20])
        except Exception as e:
            ctx.fail('raises', case, exc=repr(e), after_editing_earlier_result=True)
        return keep
    return out


def run_shard(spec, ctx):
    import a5
    from rv import gen, probe
    from rv.tree import Tree
    tree = Tree(a5)
    probe.count_only([('a5.core.compact', 'compact'), ('a5.core.serialization', 'cell_to_parent')])
    rnd = ctx.rnd
    if spec['part'] == 'antichains':
        sh = cc.sub_hierarchy(a5, spec['seed'])
        cfgs = cc.other_configs_quick(sh['others']) if ctx.tier == 'quick' else cc.other_configs_thorough(sh['others'])
        n = 0
        for ia, xa in enumerate(sh['acA']):
            if ia % spec['mod'] != spec['rem']:
                continue
            for xb in sh['acB']:
                for oc in cfgs:
                    X = xa + xb + oc
                    L = cc.presentations(rnd, X, tree, True)
                    ctx.case(tuple(L), nontrivial=len(X) >= 2)
                    n += 1
                    eval_case(a5, tree, L, ctx, {'cells': L}, expand=(n % 50 == 0))
        ctx.count('antichain_cases', n)
        if spec['rem'] == 0:
            for L in ([0], [], [0] + list(sh['faces']), list(sh['faces'])):
                ctx.case(tuple(L), nontrivial=False)
                eval_case(a5, tree, L, ctx, {'cells': L})
            # 100k/16 random antichains of the full product space (all ten other faces free)
        for _ in range(6000 if ctx.tier == 'quick' else 20000):
            X = rnd.choice(sh['acA']) + rnd.choice(sh['acB']) + tuple(o for o in sh['others'] if rnd.random() < 0.5)
            L = cc.presentations(rnd, X, tree, True)
            ctx.case(tuple(L), nontrivial=len(X) >= 2)
            ctx.count('random_product_cases')
            eval_case(a5, tree, L, ctx, {'cells': L})
        ctx.sample({'cells': L, 'compact': a5.compact(list(L))})
    elif spec['part'] == 'random':
        for _ in range(60 * spec['n']):
            X = list(tree.antichain(cc.head_cascade(rnd, a5, gen)))
            L = cc.presentations(rnd, X, tree, True)
            ctx.case(tuple(L), nontrivial=True)
            ctx.count('head_cascade_cases')
            eval_case(a5, tree, L, ctx, {'cells': L})
        for _ in range(60 * spec['n']):
            X = cc.small_mixed(rnd, a5, gen)
            L = cc.presentations(rnd, X, tree, True)
            ctx.case(tuple(L), nontrivial=True)
            ctx.count('small_mixed_cases')
            eval_case(a5, tree, L, ctx, {'cells': L})
        for _ in range(40 * spec['n']):
            X, root = cc.spine_case(rnd, a5, gen)
            L = cc.presentations(rnd, X, tree, True)
            ctx.case(tuple(L), nontrivial=True)
            ctx.count('spine_cases')
            eval_case(a5, tree, L, ctx, {'cells': L})
        for _ in range(60 * spec['n']):
            L = cc.covered_twice(rnd, a5, gen)
            ctx.case(tuple(L), nontrivial=True)
            ctx.count('covered_twice_cases')
            eval_case(a5, tree, L, ctx, {'cells': L})
        # the property's own observation point, set(uncompact(compact(X), R)) == set(uncompact(X, R)), on bounded cases; several
        # different X under the same root, each with a foreign cell in the list, are observed one after the other
        for it_ in range(8 * spec['n']):
            rr = rnd.randint(1, 24) if it_ % 10 else rnd.choice((0, 0, 1))
            root = gen.random_cell(rnd, a5, rr)
            depth = rnd.randint(2, 5) if it_ % 10 else 6
            R = rr + depth
            for rep in range(3):
                X = cc.spine(rnd, a5, root, rr, depth, rnd.random() < 0.7)
                other = gen.random_cell(rnd, a5, rnd.randint(max(1, R - 2), R))
                L = cc.presentations(rnd, X + [other], tree, False)
                ctx.case(tuple(L), nontrivial=True)
                out = eval_case(a5, tree, L, ctx, {'cells': L})
                if out is None:
                    continue
                R = max(tree.res(c) for c in L)
                try:
                    b = set(a5.uncompact(list(out), R))
                    a = set(a5.uncompact(list(L), R))
                    ctx.count('uncompact_observations')
                    if a != b:
                        ctx.fail('region_changed_via_uncompact', {'cells': L, 'R': R}, lost=len(a - b), added=len(b - a))
                except Exception as e:
                    ctx.fail('raises', {'cells': L}, exc=repr(e))
        for _ in range(spec['n']):
            L = cc.random_large(rnd, a5, gen)
            ctx.case(tuple(L), nontrivial=True)
            ctx.count('random_large_cases')
            ctx.count('random_large_cells', len(L))
            eval_case(a5, tree, L, ctx, {'cells': L, 'n_cells': len(L)})
        ctx.sample({'n_cells': len(L), 'first': L[:6]})
    else:
        for rep in range(3 if ctx.tier == 'quick' else 12):
            for base in cc.small_perm_cases(a5, rnd, gen):
                for perm in itertools.permutations(base):
                    ctx.case(perm, nontrivial=True)
                    ctx.count('permutation_cases')
                    eval_case(a5, tree, list(perm), ctx, {'cells': list(perm)})
        ctx.sample({'cells': list(perm)})


def finalize(m, tier):
    inc = []
    if m['counters'].get('oracle_disagreement', 0):
        inc.append('canon-vs-expansion oracle disagreement (oracle fault)')
    if m['counters'].get('antichain_cases', 0) < 800000:
        inc.append('antichain enumeration incomplete')
    return {'inconclusive': inc,
            'explanation': 'the bounded sub-hierarchy family is enumerated completely for the stated other-face configurations'}


def replay(f, ctx):
    import a5
    from rv.tree import Tree
    c = f['case']
    if c.get('truncated'):
        print('case was a large random set; only its first 40 cells were recorded - replaying those')
    eval_case(a5, Tree(a5), c['cells'], ctx, c, expand=False)
