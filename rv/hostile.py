"""Hostile caller: every list the public API hands out is edited in place right after the check has taken its copy.

A caller is free to reverse, trim or extend a list it received (an empty one too). If the library handed out an object it still holds (a memoised
result, a module-level table), that edit changes what later calls return - the check's ordinary oracles then see wrong results.
On a tree that returns fresh objects the edits touch garbage only. Installed on the names of the `a5` package namespace (what
the checks call); the library's internal calls are not affected. A result that *is* one of the arguments is passed through
untouched (the checks test for that identity themselves).
"""
import os
import sys
import types

COUNTS = {'results_edited': 0, 'functions_wrapped': 0}


def _wrap(fn):
    modname, name = fn.__module__, fn.__name__

    def hostile_caller(*args, **kw):
        res = getattr(sys.modules[modname], name)(*args, **kw)   # looked up per call: probes installed later are honoured
        if type(res) is list and not any(res is a for a in args):
            mine = [list(x) if type(x) is list else x for x in res]
            COUNTS['results_edited'] += 1
            for x in res:
                if type(x) is list and x:
                    x[0] = 0.0
            res.reverse()
            if res:
                res.pop()
            res.append(res[0] if res else 0)   # an empty list gets an element: callers do collect into lists they were given
            return mine
        return res
    hostile_caller.__name__ = name
    hostile_caller.__wrapped__ = fn
    return hostile_caller


def install(a5):
    if os.environ.get('VERIF_HOSTILE_CALLER', '1') == '0':
        return 0
    for k, v in list(vars(a5).items()):
        if isinstance(v, types.FunctionType) and (v.__module__ or '').startswith('a5.') and not k.startswith('_'):
            m = sys.modules.get(v.__module__)
            if m is not None and getattr(m, v.__name__, None) is v:
                setattr(a5, k, _wrap(v))
                COUNTS['functions_wrapped'] += 1
    return COUNTS['functions_wrapped']
