"""Workload library: hostile point and cell generators. All randomness comes from the Recorder's rnd.

The 62 dodecahedron frame points are computed here from public geometry (face 0 at the north pole, five
faces at colatitude atan(2) every 72 deg starting at longitude -93, their antipodes), not read from a5.
"""
import math
from . import geo

_IH = math.atan(2.0)  # angle between adjacent face centres


def _frame():
    cs = [(0.0, 0.0, 1.0)]
    for i in range(5):
        lon = math.radians(72 * i - 93)
        cs.append((math.sin(_IH) * math.cos(lon), math.sin(_IH) * math.sin(lon), math.cos(_IH)))
    for i in range(5):
        lon = math.radians(72 * i + 36 - 93)
        cs.append((math.sin(_IH) * math.cos(lon), math.sin(_IH) * math.sin(lon), -math.cos(_IH)))
    cs.append((0.0, 0.0, -1.0))
    adj = lambda a, b: abs(geo.dot(a, b) - 1 / math.sqrt(5)) < 1e-9
    mids, verts = [], []
    for i in range(12):
        for j in range(i + 1, 12):
            if adj(cs[i], cs[j]):
                mids.append(geo.unit(geo.add(cs[i], cs[j])))
                for k in range(j + 1, 12):
                    if adj(cs[i], cs[k]) and adj(cs[j], cs[k]):
                        verts.append(geo.unit(geo.add(geo.add(cs[i], cs[j]), cs[k])))
    assert len(mids) == 30 and len(verts) == 20
    return cs, verts, mids


CENTRES, VERTS, MIDS = _frame()
_EDGE_LEN = min(geo.ang(VERTS[0], v) for v in VERTS[1:])
EDGES = [(a, b) for i, a in enumerate(VERTS) for b in VERTS[i + 1:] if abs(geo.ang(a, b) - _EDGE_LEN) < 1e-9]
assert len(EDGES) == 30
# seams: great-circle arcs from every face centre to its 5 vertices and 5 edge midpoints
SEAMS = [(c, x) for c in CENTRES for x in VERTS + MIDS if geo.ang(c, x) < 0.66]
assert len(SEAMS) == 120
FRAME = [('centre', v) for v in CENTRES] + [('vertex', v) for v in VERTS] + [('mid', v) for v in MIDS]


def p_uniform(rnd):
    return (rnd.uniform(-180, 180), math.degrees(math.asin(rnd.uniform(-1, 1))))


def p_polar(rnd):
    k = rnd.random()
    if k < 0.04:
        return (rnd.uniform(-180, 180), 90.0 if rnd.random() < 0.5 else -90.0)
    c = 10 ** rnd.uniform(-12, -1)
    lat = 90.0 - math.degrees(c)
    return (rnd.uniform(-180, 180), lat if rnd.random() < 0.5 else -lat)


def p_frame(rnd, i=None, emin=-12, emax=-1):
    if i is None:
        i = rnd.randrange(62)
    kind, f = FRAME[i]
    eps = 10 ** rnd.uniform(emin, emax)
    if rnd.random() < 0.03:
        return geo.vec_to_ll(f)  # the frame point itself, as exactly as lon/lat doubles allow
    if rnd.random() < 0.3 and kind != 'centre':
        # displace along the direction to a neighbouring frame centre (seams / edges run there)
        g = CENTRES[rnd.randrange(12)]
        d = geo.sub(g, geo.scale(f, geo.dot(f, g)))
        n = geo.norm(d)
        w = geo.scale(d, 1 / n) if n > 1e-9 else (1.0, 0.0, 0.0)
    elif rnd.random() < 0.3:
        # along a seam ray of a face centre (multiples of 36 deg are covered by aiming at other frame points)
        g = FRAME[rnd.randrange(62)][1]
        d = geo.sub(g, geo.scale(f, geo.dot(f, g)))
        n = geo.norm(d)
        w = geo.scale(d, 1 / n) if n > 1e-9 else (1.0, 0.0, 0.0)
        eps2 = eps * 10 ** rnd.uniform(-6, -1)
        e = geo.unit((rnd.gauss(0, 1), rnd.gauss(0, 1), rnd.gauss(0, 1)))
        w = geo.add(w, geo.scale(e, eps2 / eps))
    else:
        w = geo.unit((rnd.gauss(0, 1), rnd.gauss(0, 1), rnd.gauss(0, 1)))
    q = geo.unit(geo.add(f, geo.scale(w, eps)))
    return geo.vec_to_ll(q)


def _near_arc(rnd, a, b, emin=-12, emax=-1):
    """a point at a random position along the great-circle arc a-b, displaced perpendicular to it by 10^u rad"""
    t = rnd.random() if rnd.random() < 0.8 else 10 ** rnd.uniform(-9, 0)
    m = geo.unit(geo.add(geo.scale(a, 1 - t), geo.scale(b, t)))
    n = geo.unit(geo.cross(a, b))
    eps = 10 ** rnd.uniform(emin, emax) * rnd.choice((-1, 1))
    if rnd.random() < 0.05:
        eps = 0.0
    return geo.vec_to_ll(geo.unit(geo.add(m, geo.scale(n, eps))))


def p_edge(rnd):
    """next to (or on) one of the 30 dodecahedron edges, anywhere along it"""
    a, b = EDGES[rnd.randrange(30)]
    return _near_arc(rnd, a, b)


def p_seam(rnd):
    """next to (or on) one of the 120 triangle seams (face centre to vertex / edge midpoint)"""
    a, b = SEAMS[rnd.randrange(120)]
    return _near_arc(rnd, a, b)


def p_equator(rnd):
    """next to (or on) the equator: latitude +-10^u degrees, u in -13..0"""
    lat = 10 ** rnd.uniform(-13, 0) * rnd.choice((-1, 1))
    if rnd.random() < 0.05:
        lat = rnd.choice((0.0, -0.0))
    lon = rnd.uniform(-180, 180) if rnd.random() < 0.7 else (-3.0 + 36 * rnd.randrange(10)) + rnd.choice((0.0, 10 ** rnd.uniform(-12, -3)))
    return (lon, lat)


def p_antimeridian(rnd):
    d = 10 ** rnd.uniform(-12, 1) * rnd.choice((-1, 1))
    # +-180 and the meridians where the library's internal azimuth (lon + 93 deg) wraps or is zero
    base = rnd.choice((180.0, -180.0, 180.0, -180.0, 87.0, -93.0, -273.0))
    lat = math.degrees(math.asin(rnd.uniform(-1, 1)))
    if rnd.random() < 0.15:
        # the antimeridian (or an internal azimuth cut) next to a pole
        lat = (90.0 - math.degrees(10 ** rnd.uniform(-10, -1))) * rnd.choice((-1, 1))
    if rnd.random() < 0.05:
        d = 0.0
    return (base + d, lat)


def p_wide(rnd):
    k = rnd.random()
    lat = math.degrees(math.asin(rnd.uniform(-1, 1)))
    if k < 0.7:
        return (rnd.uniform(-540, 540), lat)
    lon = rnd.choice((1e6, -1e6, 1e15, -0.0, 5e-324, 720.0, -720.0, 360.0, -360.0, 540.0, -540.0, 179.99999999999997,
                      -179.99999999999997, 1e-300))
    if rnd.random() < 0.3:
        lon = int(rnd.uniform(-540, 540))
        lat = int(lat)
    return (lon, lat)


def p_hug(rnd, a5, r=None):
    """a point just inside a corner or an edge of some cell (found through the API)"""
    base = rnd.choice((p_uniform, p_uniform, p_polar, p_frame))(rnd)
    if r is None:
        r = rnd.randint(0, 29)
    try:
        c = a5.lonlat_to_cell(base, r)
        ring = a5.cell_to_boundary(c, {'segments': 1, 'closed_ring': False})
        ctr = a5.cell_to_lonlat(c)
    except Exception:
        return base, r
    vs = [geo.ll_to_vec(*p) for p in ring]
    cv = geo.ll_to_vec(*ctr)
    i = rnd.randrange(len(vs))
    if rnd.random() < 0.5:
        e = vs[i]
    else:
        s = rnd.random()
        e = geo.unit(geo.add(geo.scale(vs[i], s), geo.scale(vs[(i + 1) % len(vs)], 1 - s)))
    t = 10 ** rnd.uniform(-9, math.log10(0.3))
    q = geo.unit(geo.add(geo.scale(e, 1 - t), geo.scale(cv, t)))
    return geo.vec_to_ll(q), r


POINT_GENS = {'uniform': p_uniform, 'polar': p_polar, 'frame': p_frame, 'antimeridian': p_antimeridian, 'wide': p_wide,
              'edge': p_edge, 'seam': p_seam, 'equator': p_equator}


def point(rnd, a5, kind, r=None):
    """returns ((lon, lat), r)"""
    if r is None:
        r = rnd.randint(0, 29)
    if kind == 'hug':
        return p_hug(rnd, a5, r)
    return POINT_GENS[kind](rnd), r


# ----------------------------------------------------------------------------- cells: through the public API (alias_cell also uses the documented id layout)
def digits_pattern(rnd, n, kind=None):
    """n quaternary digits (most significant first)"""
    kind = kind or rnd.choice(('zero', 'three', '0333', '1000', '1222', 'alt12', 'alt30', 'single', 'random', 'random',
                               'runs'))
    if n <= 0:
        return []
    if kind == 'zero':
        return [0] * n
    if kind == 'three':
        return [3] * n
    if kind == '0333':
        return [0] + [3] * (n - 1)
    if kind == '1000':
        return [1] + [0] * (n - 1)
    if kind == '1222':
        return [1] + [2] * (n - 1)
    if kind == 'alt12':
        return [1 + (i & 1) for i in range(n)]
    if kind == 'alt30':
        return [3 * (1 - (i & 1)) for i in range(n)]
    if kind == 'single':
        d = [0] * n
        d[rnd.randrange(n)] = rnd.randint(1, 3)
        return d
    if kind == 'runs':
        d = []
        while len(d) < n:
            d.extend([rnd.randint(0, 3)] * rnd.randint(1, 6))
        return d[:n]
    return [rnd.randint(0, 3) for _ in range(n)]


class LibraryMisbehaved(Exception):
    """the library handed the workload generator something malformed (e.g. a children list of the wrong length)"""


def _kids(a5, c, want):
    k = a5.cell_to_children(c)
    if len(k) != want:
        raise LibraryMisbehaved('cell_to_children(%r) returned %d cells, expected %d' % (c, len(k), want))
    return k


def cell_by_path(a5, face, seg, digits):
    """descend from the world cell through cell_to_children only: face index, segment index, digit choices.
    resolution = -1 (no face), 0 (face only), 1 (face+seg), 1+len(digits)"""
    res0 = a5.cell_to_children(0, 0)
    if len(res0) != 12:
        raise LibraryMisbehaved('cell_to_children(0, 0) returned %d cells, expected 12' % len(res0))
    c = res0[face]
    if seg is None:
        return c
    c = _kids(a5, c, 5)[seg]
    for d in digits:
        c = _kids(a5, c, 4)[d]
    return c


def alias_cell(rnd, a5, r):
    """a resolution-r id (r >= 8) that repeats the bit pattern of a coarse cell's id in its upper bits: the coarse id (its
    resolution marker included, which the finer id reads as a Hilbert digit) followed by zero digits, optionally a few random
    low digits, and the marker of resolution r (bit 59 - 2r of the documented id layout). These are the ids that a coarse id
    can be confused with when only part of the 64 bits is looked at."""
    q = random_cell(rnd, a5, rnd.randint(0, min(5, r - 3)), alias=False)
    m = 59 - 2 * r
    y = q | (1 << m)
    if rnd.random() < 0.5:
        t = rnd.randint(1, min(8, r - 7))
        y |= rnd.getrandbits(2 * t) << (m + 1)
    return y


def random_cell(rnd, a5, r=None, rmin=0, rmax=29, alias=True):
    if r is None:
        r = rnd.randint(rmin, rmax)
    if alias and r >= 8 and rnd.random() < 0.05:
        return alias_cell(rnd, a5, r)
    face = rnd.randrange(12)
    if r == 0:
        return cell_by_path(a5, face, None, [])
    return cell_by_path(a5, face, rnd.randrange(5), digits_pattern(rnd, r - 1))


def selftest(a5=None):
    """diagnostic: the independently computed frame agrees with the library's CRS vertices (lon = theta - 93)"""
    if a5 is None:
        return {'ok': True}
    from a5.projections.crs import CRS
    worst = 0.0
    lib = []
    for v in CRS().vertices:
        th = math.atan2(v[1], v[0]) - math.radians(93)
        h = math.hypot(v[0], v[1])
        lib.append((h * math.cos(th), h * math.sin(th), v[2]))
    for _, f in FRAME:
        worst = max(worst, min(geo.ang(f, g) for g in lib))
    return {'ok': worst < 1e-9, 'worst': worst}
