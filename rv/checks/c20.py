"""C20 - cell-count and area metadata agree with the actual hierarchy."""
import math

ID = 'C20'
LEDGER_FILES = ['a5/core/cell_info.py', 'a5/core/serialization.py']
MUST_ENTER = [('a5/core/cell_info.py', 'get_num_cells'), ('a5/core/cell_info.py', 'get_num_children'),
              ('a5/core/cell_info.py', 'cell_area'), ('a5/core/serialization.py', 'cell_to_children')]
RULE = ('complete enumeration of the finite metadata domain: r in -1..30 for counts/areas, all 496 ordered pairs '
        '-1<=p<=c<=29 for get_num_children (observed list lengths for c<=p+6 on first/last/random parent cells, own closed '
        'form N(c)/N(p) beyond), get_num_cells(r) vs the number of distinct ids obtained by expanding the world cell '
        '(r<=6 quick, 8 thorough) and vs the sum of children counts over every coarser level (r<=5|6). '
        'distinct = distinct (kind, r or pair, cell); non-trivial = pairs with p<c and every enumerated level')
ASSUMPTIONS = ['authalic radius 6371007.2 m defines the sphere area', 'own closed form N(0)=12, N(r)=60*4^(r-1)']
R_AUTH = 6371007.2


def N(r):
    return 12 if r == 0 else 60 * 4 ** (r - 1)


def plan(tier, seed):
    top = 6 if tier == 'quick' else 8
    specs = [{'part': 'meta'}]
    for r in range(0, top + 1):
        specs.append({'part': 'enum', 'r': r, 'sumtop': 5 if tier == 'quick' else 6})
    return specs


def run_shard(spec, ctx):
    import a5
    from a5.core.cell_info import get_num_children
    from rv import gen, probe
    probe.count_only([('a5.core.cell_info', 'get_num_cells'), ('a5.core.cell_info', 'get_num_children'),
                      ('a5.core.cell_info', 'cell_area'), ('a5.core.serialization', 'cell_to_children')])
    from a5.core.cell_info import get_num_children  # rebound wrapper
    if spec['part'] == 'meta':
        sphere = 4 * math.pi * R_AUTH * R_AUTH
        prev = None
        for r in range(0, 31):
            ctx.case(('meta', r))
            try:
                n, a = a5.get_num_cells(r), a5.cell_area(r)
            except Exception as e:
                ctx.fail('meta_raises', {'r': r}, exc=repr(e))
                continue
            if n != N(r):
                ctx.fail('num_cells_formula', {'r': r}, got=n, want=N(r))
            rel = abs(a * n / sphere - 1)
            ctx.maxi('area_times_count_rel_err', rel, {'r': r})
            if rel > 4e-16:
                ctx.fail('area_times_count', {'r': r}, rel=rel)
            if prev is not None and not (a < prev):
                ctx.fail('area_not_decreasing', {'r': r}, area=a, prev=prev)
            prev = a
        for p in range(-1, 30):
            for c in range(p, 30):
                ctx.case(('pair', p, c), nontrivial=p < c)
                want = 1 if p == c else ((N(c) // N(p)) if p >= 0 else N(c))
                try:
                    got = get_num_children(p, c)
                except Exception as e:
                    ctx.fail('num_children_raises', {'p': p, 'c': c}, exc=repr(e))
                    continue
                if got != want:
                    ctx.fail('num_children_formula', {'p': p, 'c': c}, got=got, want=want)
                if c <= p + 6:
                    cells = [0] if p == -1 else [gen.cell_by_path(a5, 0, None if p == 0 else 0, [0] * max(0, p - 1)),
                                                  gen.cell_by_path(a5, 11, None if p == 0 else 4, [3] * max(0, p - 1)),
                                                  gen.random_cell(ctx.rnd, a5, p)]
                    for x in cells:
                        ln = len(a5.cell_to_children(x, c))
                        ctx.count('pairs_observed_lengths')
                        if ln != got:
                            ctx.fail('num_children_vs_len', {'p': p, 'c': c, 'cell': x}, got=got, length=ln)
        ctx.sample({'pair': [1, 4], 'get_num_children': get_num_children(1, 4)})
    else:
        r = spec['r']
        ids = a5.cell_to_children(0, r)
        ctx.case(('enum', r))
        ctx.count('ids_enumerated', len(ids))
        d = len(set(ids))
        if d != a5.get_num_cells(r) or d != N(r) or d != len(ids):
            ctx.fail('enum_count', {'r': r}, distinct=d, listed=len(ids), get_num_cells=a5.get_num_cells(r))
        if r <= spec['sumtop']:
            for p in range(-1, r):
                ctx.case(('sum', p, r))
                tot = sum(len(a5.cell_to_children(x, r)) for x in a5.cell_to_children(0, p))
                if tot != a5.get_num_cells(r):
                    ctx.fail('sum_children', {'p': p, 'r': r}, total=tot, get_num_cells=a5.get_num_cells(r))
        ctx.sample({'r': r, 'distinct_ids': d, 'get_num_cells': a5.get_num_cells(r)})


def finalize(m, tier):
    return {'exhaustive': True,
            'explanation': 'the metadata domain (31 resolutions, 496 resolution pairs) is finite and enumerated completely; '
                           'enumeration-backed counts reach level %d' % (6 if tier == 'quick' else 8)}


def replay(f, ctx):
    run_shard({'part': 'meta'}, ctx)
    c = f.get('case', {})
    if 'r' in c and 'p' not in c:
        run_shard({'part': 'enum', 'r': min(c['r'], 8), 'sumtop': 6}, ctx)
