"""C05 - cell ids are a faithful 64-bit code."""
ID = 'C05'
LEDGER_FILES = ['a5/core/serialization.py']
MUST_ENTER = [('a5/core/serialization.py', 'serialize'), ('a5/core/serialization.py', 'deserialize'),
              ('a5/core/serialization.py', 'get_resolution')]
RULE = ('cells (face, segment, S, r): complete enumeration of all ids r<=6 (quick) / 8 (thorough) through cell_to_children(0, r); '
        'structured encode/decode for every (face, segment, r in 0..30) with S in {0,1,max,max-1,single bits, top-two bits, '
        'marker-adjacent bits, random}; over-range S must raise; the same cell described by dicts of different provenance (fresh, plain dict, decoded neighbour edited with update / |= / item assignment, copies); 6 concurrent threads encoding / decoding different cells; a second codec call on another cell injected at every LINE event of a codec call; ambient post-conditions on every serialize/deserialize executed '
        'inside lonlat_to_cell / cell_to_children / cell_to_parent / compact. The bit layout is not pinned: only range, '
        'resolution, bijection and counts are demanded. distinct = distinct (face, segment, S, r) or id; non-trivial = r>=2 '
        '(position bits present) or enumerated id')
ASSUMPTIONS = ['negative S and non-zero S at r<2 are not positions and are outside the property',
               '"S symbolic" is approximated by sampling aimed at bit positions; this family cannot quantify over all 2^56 values']
M64 = 1 << 64


def plan(tier, seed):
    top = 6 if tier == 'quick' else 8
    specs = [{'part': 'enum', 'levels': list(range(0, min(top, 6) + 1)), 'faces': None}]
    if top > 6:
        for r in range(7, top + 1):
            for f in range(12):
                specs.append({'part': 'enum', 'levels': [r], 'faces': [f]})
    for rc, b in ([(-1, 8), (2, 12)] if tier == 'quick' else [(-1, 9), (0, 10), (0, 11), (2, 12), (3, 14), (19, 29)]):
        specs.append({'part': 'ladder', 'rc': rc, 'b': b})
    for f0 in (0, 3, 6, 8):
        specs.append({'part': 'ladder', 'rc': 0, 'b': 9, 'faces': [f0, f0 + 1, f0 + 2, f0 + 3]})
    nrand = 12 if tier == 'quick' else 150
    for f in range(12):
        specs.append({'part': 'structured', 'face': f, 'nrand': nrand})
    specs.append({'part': 'threads', 'seconds': 4 if tier == 'quick' else 30})
    specs.append({'part': 'interleave', 'n': 150 if tier == 'quick' else 3000})
    for i in range(3 if tier == 'quick' else 12):
        specs.append({'part': 'ambient', 'n': 1500 if tier == 'quick' else 8000})
    return specs


def key_of(cell):
    r = cell['resolution']
    if r == 0:
        return (cell['origin'].id, None, 0, 0)
    if r == 1:
        return (cell['origin'].id, cell['segment'], 0, 1)
    return (cell['origin'].id, cell['segment'], cell['S'], r)


def check_id(i, r, ctx, ser, table, case):
    """post-conditions for an id observed at resolution r"""
    if not isinstance(i, int) or not (1 <= i < M64):
        ctx.fail('id_out_of_range', case, id=i)
        return None
    try:
        gr = ser.get_resolution(i)
        cell = ser.deserialize(i)
    except Exception as e:
        ctx.fail('decode_raises', case, id=i, exc=repr(e))
        return None
    if gr != r or cell['resolution'] != r:
        ctx.fail('resolution_mismatch', case, id=i, got=gr, want=r)
    try:
        back = ser.serialize(cell)
    except Exception as e:
        ctx.fail('reencode_raises', case, id=i, exc=repr(e))
        return cell
    if back != i:
        ctx.fail('reencode_differs', case, id=i, back=back)
    k = key_of(cell)
    prev = table.get(i)
    if prev is not None and prev != k:
        ctx.fail('collision', case, id=i, cell=k, other=prev)
    if len(table) < 3000000:
        table[i] = k
    return cell


def s_values(r, rnd, nrand):
    if r < 2:
        return [0]
    bits = 2 * (r - 1)
    mx = (1 << bits) - 1
    vals = {0, 1, 2, 3, mx, mx - 1, mx >> 1, mx >> 2, (mx >> 1) + 1}
    for b in range(bits):
        vals.add(1 << b)
        vals.add(mx ^ (1 << b))
    vals.add(3 << (bits - 2))
    vals.add(2 << (bits - 2))
    for _ in range(nrand):
        vals.add(rnd.getrandbits(bits))
    return sorted(v for v in vals if 0 <= v <= mx)


def run_shard(spec, ctx):
    import a5
    import a5.core.serialization as ser
    from a5.core.origin import origins
    from a5.core.utils import A5Cell
    from rv import probe, gen
    table = {}
    part = spec['part']
    if part == 'enum':
        cells_seen = {}
        for r in spec['levels']:
            if spec['faces'] is None:
                ids = a5.cell_to_children(0, r)
                want = a5.get_num_cells(r)
            else:
                res0 = a5.cell_to_children(0, 0)
                ids = []
                for f in spec['faces']:
                    ids.extend(a5.cell_to_children(res0[f], r))
                want = a5.get_num_cells(r) // 12 * len(spec['faces'])
            if len(ids) != want or len(set(ids)) != want:
                ctx.fail('enum_count', {'r': r, 'faces': spec['faces']}, listed=len(ids), distinct=len(set(ids)), want=want)
            for i in ids:
                ctx.case(i)
                cell = check_id(i, r, ctx, ser, table, {'r': r, 'id': i, 'via': 'enum'})
                if cell is not None:
                    k = key_of(cell)
                    o = cells_seen.get(k)
                    if o is not None and o != i:
                        ctx.fail('two_ids_one_cell', {'r': r, 'id': i}, other=o, cell=k)
                    cells_seen[k] = i
            ctx.count('enumerated_r%02d' % r, len(ids))
        ctx.sample({'id': ids[len(ids) // 2], 'r': r, 'decoded': list(key_of(ser.deserialize(ids[len(ids) // 2])))})
    elif part == 'interleave':
        # line-granular preemption of one codec call by another on a different cell (sys.monitoring injector, every LINE event of
        # the preempted call): encode / decode / get_resolution must return what they return alone, and so must the next call
        import os
        from rv import sched
        inj = sched.Injector(os.path.dirname(os.path.realpath(a5.__file__)))
        for _ in range(spec['n']):
            c1 = gen.random_cell(ctx.rnd, a5, ctx.rnd.randint(0, 29))
            c2 = gen.random_cell(ctx.rnd, a5, ctx.rnd.randint(0, 29))
            d1 = ser.deserialize(c1)
            fns = {'get_resolution': (lambda x=c1: ser.get_resolution(x)), 'deserialize': (lambda x=c1: key_of(ser.deserialize(x))),
                   'serialize': (lambda d=d1: ser.serialize(d))}
            if ser.get_resolution(c1) < 29:
                # an enumeration encodes several ids in one call
                fns['children'] = (lambda x=c1: a5.cell_to_children(x))
            B = ctx.rnd.choice([lambda x=c2: ser.get_resolution(x), lambda x=c2: key_of(ser.deserialize(x)),
                                lambda x=c2: ser.serialize(ser.deserialize(x)),
                                lambda x=c2: a5.cell_to_children(x, min(29, ser.get_resolution(x) + 1))])
            wantB = B()
            for name, A in fns.items():
                want = A()
                n_ev = inj.events_in(A, 'line')
                for k in range(1, n_ev + 1):
                    st, res = inj.run(A, B, k, 'line')
                    ctx.case(('interleave', c1, c2, name, k))
                    ctx.count('codec_interleavings')
                    if st != 'ok' or res != want or inj.bexc is not None or (inj.where is not None and inj.bres != wantB):
                        ctx.fail('wrong_when_interleaved', {'id': c1, 'other': c2, 'fn': name, 'k': k}, got=repr(res), want=repr(want))
                    if A() != want:
                        ctx.fail('wrong_after_interleaving', {'id': c1, 'other': c2, 'fn': name, 'k': k})
        inj.close()
        ctx.sample({'interleaved': [c1, c2]})
    elif part == 'threads':
        # concurrent callers encoding / decoding DIFFERENT cells (1 us switch interval): every result must equal the single-threaded one
        import sys
        import threading
        import time
        cells = []
        for _ in range(400):
            rr = ctx.rnd.randint(0, 29)
            c = gen.random_cell(ctx.rnd, a5, rr)
            d = ser.deserialize(c)
            cells.append((c, rr, key_of(d)))
        old = sys.getswitchinterval()
        sys.setswitchinterval(1e-6)
        stop = time.time() + spec['seconds']
        bad = []
        done = [0] * 6

        def worker(t):
            import random
            rnd = random.Random('%s/%s' % (spec['seed'], t))
            while time.time() < stop:
                c, rr, k = cells[rnd.randrange(len(cells))]
                try:
                    g = ser.get_resolution(c)
                    d = ser.deserialize(c)
                    back = ser.serialize(d)
                    if g != rr or key_of(d) != k or back != c:
                        if len(bad) < 10:
                            bad.append((c, g, key_of(d), back))
                except Exception as e:
                    if len(bad) < 10:
                        bad.append((c, repr(e)))
                done[t] += 1
        ts = [threading.Thread(target=worker, args=(t,), daemon=True) for t in range(6)]
        for t in ts:
            t.start()
        for t in ts:
            t.join(timeout=spec['seconds'] * 10 + 60)
        sys.setswitchinterval(old)
        ctx.case(('threads', spec['shard']), n=sum(done))
        ctx.count('concurrent_codec_calls', sum(done))
        for b in bad:
            ctx.fail('wrong_under_concurrent_callers', {'id': b[0], 'threads': 6}, got=repr(b[1:]))
        for c, rr, k in cells[:50]:
            if ser.get_resolution(c) != rr or key_of(ser.deserialize(c)) != k:
                ctx.fail('wrong_after_concurrent_callers', {'id': c, 'r': rr})
        ctx.sample({'threads': 6, 'calls': sum(done)})
    elif part == 'ladder':
        rc, b = spec['rc'], spec['b']
        parents = [a5.cell_to_children(0, 0)[f0] for f0 in spec['faces']] if spec.get('faces') else [0 if rc == -1 else gen.random_cell(ctx.rnd, a5, rc)]
        union = set()
        for c in parents:
            ids = a5.cell_to_children(c, b)
            want = a5.get_num_cells(b) // (a5.get_num_cells(rc) if rc >= 0 else 1)
            ctx.case(('ladder', c, b))
            ctx.count('ladder_ids', len(ids))
            if len(ids) != want or len(set(ids)) != want:
                ctx.fail('enum_count', {'r': b, 'parent': c}, listed=len(ids), distinct=len(set(ids)), want=want)
            step = max(1, len(ids) // 30000)
            for i in ids[::step] + ids[-2:]:
                check_id(i, b, ctx, ser, table, {'r': b, 'id': i, 'via': 'ladder'})
            if spec.get('faces'):
                union.update(ids)
            del ids
        if spec.get('faces') and len(union) != want * len(parents):
            # different cells must get different ids: the expansions of different faces may not overlap
            ctx.fail('enum_count', {'r': b, 'faces': spec['faces']}, distinct=len(union), want=want * len(parents))
        ctx.sample({'parent': c, 'r': b, 'ids': want})
    elif part == 'structured':
        f = spec['face']
        o = origins[f]
        by_key = {}
        for seg in range(5):
            for r in range(0, 31):
                for S in s_values(r, ctx.rnd, spec['nrand']):
                    case = {'face': f, 'segment': seg, 'S': S, 'r': r}
                    ctx.case((f, seg, S, r), nontrivial=r >= 2)
                    ctx.count('structured_r%02d' % r)
                    try:
                        i = ser.serialize(A5Cell(origin=o, segment=seg, S=S, resolution=r))
                    except Exception as e:
                        ctx.fail('serialize_raises', case, exc=repr(e))
                        continue
                    want = key_of(A5Cell(origin=o, segment=seg, S=S, resolution=r))
                    if r <= 29 and ctx.rnd.random() < 0.25:
                        # the same cell described by objects of another provenance: a plain dict, a decoded neighbour that was
                        # edited (update / |= / item assignment / copy) - the id must not depend on how the description was built
                        try:
                            other = ser.deserialize(ser.serialize(A5Cell(origin=origins[(f + 1) % 12], segment=(seg + 2) % 5,
                                                                        S=(S // 2) if r >= 2 else 0, resolution=r)))
                            variants = [dict(origin=o, segment=seg, S=S, resolution=r)]
                            v1 = other
                            v1.update(origin=o, segment=seg, S=S)
                            variants.append(v1)
                            v2 = ser.deserialize(i ^ (1 << 58) if r == 0 else i)
                            v2 |= {'origin': o, 'segment': seg, 'S': S, 'resolution': r}
                            variants.append(v2)
                            v3 = dict(ser.deserialize(i))
                            variants.append(v3)
                            v4 = ser.deserialize(i)
                            v4['S'] = S
                            variants.append(v4)
                            d0 = ser.deserialize(i)
                            if r >= 2:
                                d0['S'] ^= 1
                            d0['segment'] = (d0['segment'] + 1) % 5
                            d0['resolution'] = max(0, r - 1)
                            if key_of(ser.deserialize(i)) != want or ser.get_resolution(i) != r:
                                ctx.fail('decoded_cell_is_shared_state', case, id=i)
                            for vi, vv in enumerate(variants):
                                if ser.serialize(vv) != i:
                                    ctx.fail('id_depends_on_cell_object_provenance', case, variant=vi, got=ser.serialize(vv), want=i)
                            ctx.count('provenance_variants', len(variants))
                        except Exception as e:
                            ctx.fail('provenance_raises', case, exc=repr(e))
                    cell = check_id(i, r, ctx, ser, table, case)
                    if cell is None:
                        continue
                    want = key_of(A5Cell(origin=o, segment=seg, S=S, resolution=r))
                    if key_of(cell) != want:
                        ctx.fail('decode_differs', case, id=i, got=key_of(cell), want=want)
                    prev = by_key.get(i)
                    if prev is not None and prev != want:
                        ctx.fail('collision', case, id=i, other=prev)
                    by_key[i] = want
                # over-range S must raise
                if r >= 2:
                    bits = 2 * (r - 1)
                    for S in ((1 << bits), (1 << bits) + 1, (1 << bits) + ctx.rnd.getrandbits(8), 1 << 58, 1 << 63, 1 << 64):
                        ctx.case((f, seg, S, r, 'over'))
                        ctx.count('over_range_probes')
                        try:
                            i = ser.serialize(A5Cell(origin=o, segment=seg, S=S, resolution=r))
                        except ValueError:
                            continue
                        except Exception as e:
                            if r == 30:
                                ctx.fail('serialize_raises', {'face': f, 'segment': seg, 'S': S, 'r': r}, exc=repr(e))
                            continue
                        ctx.fail('over_range_accepted', {'face': f, 'segment': seg, 'S': S, 'r': r}, id=i)
        # resolution 30 through the public hierarchy call
        c29 = gen.cell_by_path(a5, f, ctx.rnd.randrange(5), gen.digits_pattern(ctx.rnd, 28))
        ctx.case((c29, 'children30'))
        try:
            ch = a5.cell_to_children(c29, 30)
            for i in ch:
                check_id(i, 30, ctx, ser, table, {'r': 30, 'id': i, 'via': 'children'})
            if len(set(ch)) != 4:
                ctx.fail('enum_count', {'r': 30, 'parent': c29}, listed=len(ch))
        except Exception as e:
            ctx.fail('children_raises', {'r': 30, 'parent': c29}, exc=repr(e))
        ctx.sample({'face': f, 'segment': 2, 'S': 5, 'r': 3, 'id': ser.serialize(A5Cell(origin=o, segment=2, S=5, resolution=3))})
    else:
        # ambient: probes on serialize / deserialize while public calls run
        state = {'depth': 0}

        def on_ser(a, k, res):
            if state['depth']:
                return
            state['depth'] += 1
            try:
                cell = a[0]
                r = cell['resolution']
                ctx.count('ambient_serialize')
                if r == -1:
                    if res != 0:
                        ctx.fail('world_id', {'r': -1}, id=res)
                    return
                ctx.case(('amb', res), nontrivial=r >= 2)
                c2 = check_id(res, r, ctx, orig_ns, table, {'r': r, 'id': res, 'via': 'ambient'})
                if c2 is not None and key_of(c2) != key_of(cell):
                    ctx.fail('decode_differs', {'r': r, 'id': res, 'via': 'ambient'}, got=key_of(c2), want=key_of(cell))
            finally:
                state['depth'] -= 1

        class NS:  # originals, so that the checker's own calls are not re-observed
            pass
        orig_ns = NS()
        orig_ns.serialize, orig_ns.deserialize, orig_ns.get_resolution = ser.serialize, ser.deserialize, ser.get_resolution
        probe.attach('a5.core.serialization', 'serialize', on_return=on_ser)
        probe.attach('a5.core.serialization', 'deserialize')
        probe.attach('a5.core.serialization', 'get_resolution')
        kinds = ['uniform', 'polar', 'frame', 'antimeridian']
        for n in range(spec['n']):
            p, r = gen.point(ctx.rnd, a5, ctx.rnd.choice(kinds))
            try:
                c = a5.lonlat_to_cell(p, r)
                a5.cell_to_parent(c, ctx.rnd.randint(-1, r))
                if r < 29:
                    ch = a5.cell_to_children(c, min(29, r + ctx.rnd.randint(1, 2)))
                    if n % 10 == 0:
                        a5.compact(ch + [c])
            except Exception as e:
                ctx.count('ambient_call_raised')
                ctx.note('ambient call raised %r at %r r=%d' % (e, p, r))
        probe.detach_all()
        ctx.sample({'ambient_point': p, 'r': r})


def finalize(m, tier):
    inc = []
    if m['counters'].get('ambient_serialize', 0) < 1000:
        inc.append('ambient serialize probe saw fewer than 1000 calls')
    return {'inconclusive': inc,
            'explanation': 'ids of levels 0..%d enumerated completely; deeper levels by structured sampling of S' % (6 if tier == 'quick' else 8)}


def replay(f, ctx):
    import a5.core.serialization as ser
    from a5.core.origin import origins
    from a5.core.utils import A5Cell
    c = f['case']
    if f['kind'] in ('wrong_when_interleaved', 'wrong_after_interleaving'):
        run_shard({'part': 'interleave', 'n': 60, 'seed': 1, 'shard': 0}, ctx)
        return
    if f['kind'] in ('wrong_under_concurrent_callers', 'wrong_after_concurrent_callers'):
        run_shard({'part': 'threads', 'seconds': 5, 'seed': 1, 'shard': 0}, ctx)
        return
    if 'face' in c:
        try:
            i = ser.serialize(A5Cell(origin=origins[c['face']], segment=c['segment'], S=c['S'], resolution=c['r']))
            if f['kind'] == 'over_range_accepted':
                ctx.fail('over_range_accepted', c, id=i)
            else:
                cell = check_id(i, c['r'], ctx, ser, {}, c)
                if cell and key_of(cell) != key_of(A5Cell(origin=origins[c['face']], segment=c['segment'], S=c['S'], resolution=c['r'])):
                    ctx.fail('decode_differs', c, id=i)
        except Exception as e:
            if f['kind'] != 'over_range_accepted':
                ctx.fail('serialize_raises', c, exc=repr(e))
    elif 'id' in c:
        check_id(c['id'], c['r'], ctx, ser, {}, c)
    elif 'parent' in c:
        import a5
        try:
            a5.cell_to_children(c['parent'], c['r'])
        except Exception as e:
            ctx.fail('children_raises', c, exc=repr(e))
