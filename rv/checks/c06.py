"""C06 - parent/children form a consistent tree over ids."""
ID = 'C06'
LEDGER_FILES = ['a5/core/serialization.py', 'a5/core/cell_info.py']
MUST_ENTER = [('a5/core/serialization.py', 'cell_to_children'), ('a5/core/serialization.py', 'cell_to_parent'),
              ('a5/core/serialization.py', 'get_res0_cells')]
RULE = ('(i) complete levels: all ids of level b (b<=6 quick / 8 thorough) grouped by the observed cell_to_parent(., a) for every a<=b; '
        'for every cell c of level a, cell_to_children(c, b) must be duplicate-free, of the model length, equal to that group, '
        'ascending and a contiguous run of the sorted level (res(c)>=1); (ii) deep random triples (c, a, b), r in -1..29, '
        'b<=min(r+3,29): same post-conditions plus range probing with ids built around the run; composition of parents; '
        'defaults; error paths; a ladder of large fan-outs (world -> 8/9, face -> 9..11, cells -> +10 levels, i.e. up to 4^10 ids per call and 5 x 4^10 in the thorough tier) checked for count, distinctness, order, parentage and two-step composition; uncompact / compact calls on coarse cells (results scrambled) interleaved as hostile history. distinct = distinct (c, a, b); non-trivial = b>res(c) or a<res(c)')
ASSUMPTIONS = ['arities 12/5/4 are the only model constants', 'b=30 is outside this property (see C05 known finding)']


def plan(tier, seed):
    top = 6 if tier == 'quick' else 8
    specs = [{'part': 'levels', 'b': b} for b in range(0, top + 1)]
    ladder = [(-1, 8), (0, 9), (1, 10), (2, 12), (7, 17), (19, 29)] if tier == 'quick' else \
        [(-1, 8), (-1, 9), (0, 9), (0, 10), (0, 11), (1, 10), (1, 11), (2, 12), (2, 13), (4, 14), (7, 17), (9, 20), (18, 29), (19, 29)]
    import random as _r
    _lr = _r.Random('ladder/%s' % seed)
    for _ in range(2 if tier == 'quick' else 8):
        rc_ = _lr.randint(0, 19)
        ladder.append((rc_, min(29, rc_ + _lr.randint(6, 9 if tier == 'quick' else 10))))
    for rc, b in ladder:
        if (rc, b) == (0, 9):
            for f0 in range(12):
                specs.append({'part': 'ladder', 'rc': rc, 'b': b, 'face': f0})
        else:
            specs.append({'part': 'ladder', 'rc': rc, 'b': b})
    n = 3500 if tier == 'quick' else 60000
    for i in range(7 if tier == 'quick' else 24):
        specs.append({'part': 'deep', 'n': n})
    specs.append({'part': 'interleave', 'n': 60 if tier == 'quick' else 1500})
    return specs


def model_len(rc, b):
    n = 1
    for lvl in range(rc, b):
        n *= 12 if lvl == -1 else (5 if lvl == 0 else 4)
    return n


def check_children(a5, c, rc, b, ctx, case, level_sorted=None, pos=None):
    try:
        ch = a5.cell_to_children(c, b)
    except Exception as e:
        ctx.fail('children_raises', case, exc=repr(e))
        return None
    if len(ch) != model_len(rc, b):
        ctx.fail('children_length', case, got=len(ch), want=model_len(rc, b))
    s = set(ch)
    if len(s) != len(ch):
        ctx.fail('children_repeat', case)
    for x in (ch if len(ch) <= 64 else [ch[0], ch[-1]] + [ch[ctx.rnd.randrange(len(ch))] for _ in range(20)]):
        try:
            if a5.get_resolution(x) != b:
                ctx.fail('child_resolution', case, child=x, got=a5.get_resolution(x))
            if a5.cell_to_parent(x, rc) != c:
                ctx.fail('child_parent', case, child=x, parent=a5.cell_to_parent(x, rc))
        except Exception as e:
            ctx.fail('child_parent_raises', case, child=x, exc=repr(e))
    if rc >= 1 and ch != sorted(ch):
        ctx.fail('children_not_ascending', case)
    return ch


def run_shard(spec, ctx):
    import a5
    import bisect
    from rv import gen, probe
    probe.count_only([('a5.core.serialization', 'cell_to_children'), ('a5.core.serialization', 'cell_to_parent'),
                      ('a5.core.serialization', 'get_res0_cells')])
    if spec['part'] == 'levels':
        b = spec['b']
        Lb = a5.cell_to_children(0, b)
        if len(set(Lb)) != model_len(-1, b):
            ctx.fail('level_size', {'b': b}, got=len(set(Lb)))
        srt = sorted(set(Lb))
        res0 = a5.get_res0_cells()
        if res0 != a5.cell_to_children(0, 0) or len(set(res0)) != 12:
            ctx.fail('res0_cells', {'b': b})
        for a in range(-1, b + 1):
            groups = {}
            for y in Lb:
                try:
                    groups.setdefault(a5.cell_to_parent(y, a), []).append(y)
                except Exception as e:
                    ctx.fail('parent_raises', {'c': y, 'a': a, 'r': b}, exc=repr(e))
            La = a5.cell_to_children(0, a) if a >= 0 else [0]
            if set(groups) != set(La):
                ctx.fail('parents_not_level', {'a': a, 'b': b}, extra=len(set(groups) - set(La)), missing=len(set(La) - set(groups)))
            for c in La:
                case = {'c': c, 'a': a, 'b': b}
                ctx.case((c, a, b), nontrivial=b > a)
                ch = check_children(a5, c, a, b, ctx, case)
                if ch is None:
                    continue
                if set(ch) != set(groups.get(c, [])):
                    ctx.fail('children_vs_parent_groups', case, listed=len(ch), grouped=len(groups.get(c, [])))
                if a >= 1 and ch:
                    lo = bisect.bisect_left(srt, min(ch))
                    if srt[lo:lo + len(ch)] != sorted(ch):
                        ctx.fail('not_contiguous', case)
            # composition on a sample
            for y in (Lb if len(Lb) <= 2000 else [Lb[ctx.rnd.randrange(len(Lb))] for _ in range(2000)]):
                for a2 in range(-1, a + 1):
                    if a5.cell_to_parent(a5.cell_to_parent(y, a), a2) != a5.cell_to_parent(y, a2):
                        ctx.fail('parent_composition', {'c': y, 'a': a, 'a2': a2})
            ctx.count('level_pairs')
        ctx.sample({'level': b, 'cells': len(Lb), 'example_child_run': Lb[:4]})
        return
    if spec['part'] == 'interleave':
        # a second hierarchy call on another cell injected at every LINE event of a hierarchy call (sys.monitoring injector)
        import os
        from rv import sched
        inj = sched.Injector(os.path.dirname(os.path.realpath(a5.__file__)))
        for _ in range(spec['n']):
            r1, r2 = ctx.rnd.randint(0, 28), ctx.rnd.randint(0, 28)
            c1, c2 = gen.random_cell(ctx.rnd, a5, r1), gen.random_cell(ctx.rnd, a5, r2)
            fns = {'children': (lambda: a5.cell_to_children(c1, min(29, r1 + 1))), 'parent': (lambda: a5.cell_to_parent(c1, max(-1, r1 - 2))),
                   'resolution': (lambda: a5.get_resolution(c1))}
            B = ctx.rnd.choice([lambda: a5.cell_to_children(c2, min(29, r2 + 2)), lambda: a5.cell_to_parent(c2), lambda: a5.get_resolution(c2),
                                lambda: a5.cell_to_children(c1, min(29, r1 + 1)), lambda: a5.cell_to_parent(c1, max(-1, r1 - 1))])
            wantB = B()
            for name, A in fns.items():
                want = A()
                for k in range(1, inj.events_in(A, 'line') + 1):
                    import signal

                    def _stuck(signum, frame):
                        raise TimeoutError('a hierarchy call that takes microseconds did not return within 60 s')
                    signal.signal(signal.SIGALRM, _stuck)
                    signal.alarm(60)
                    try:
                        st, res = inj.run(A, B, k, 'line')
                    finally:
                        signal.alarm(0)
                    ctx.case(('interleave', c1, c2, name, k))
                    ctx.count('hierarchy_interleavings')
                    if st == 'exc' and isinstance(res, TimeoutError):
                        ctx.fail('call_did_not_return', {'c': c1, 'other': c2, 'fn': name, 'k': k}, exc=repr(res))
                        inj.close()
                        return
                    if st != 'ok' or res != want or inj.bexc is not None or (inj.where is not None and inj.bres != wantB):
                        ctx.fail('wrong_when_interleaved', {'c': c1, 'other': c2, 'fn': name, 'k': k}, got=repr(res)[:200])
                    if A() != want:
                        ctx.fail('wrong_after_interleaving', {'c': c1, 'other': c2, 'fn': name, 'k': k})
        inj.close()
        ctx.sample({'interleaved': [c1, c2]})
        return
    if spec['part'] == 'ladder':
        # large fan-outs (up to 4^10 per cell and beyond): count, distinctness, order, contiguity and parentage of the whole run
        rc, b = spec['rc'], spec['b']
        c = 0 if rc == -1 else gen.cell_by_path(a5, spec.get('face', ctx.rnd.randrange(12)), None if rc == 0 else ctx.rnd.randrange(5),
                                                gen.digits_pattern(ctx.rnd, max(0, rc - 1)))
        case = {'c': c, 'a': rc, 'b': b, 'r': rc, 'ladder': True}
        ctx.case((c, rc, b))
        try:
            ch = a5.cell_to_children(c, b)
        except Exception as e:
            ctx.fail('children_raises', case, exc=repr(e))
            return
        want = model_len(rc, b)
        ctx.count('ladder_children', len(ch))
        if len(ch) != want or len(set(ch)) != len(ch):
            ctx.fail('children_length', case, got=len(ch), distinct=len(set(ch)), want=want)
        if rc >= 1 and any(ch[i] >= ch[i + 1] for i in range(len(ch) - 1)):
            ctx.fail('children_not_ascending', case)
        step = max(1, len(ch) // 20000)
        for x in ch[::step] + ch[-3:]:
            if a5.get_resolution(x) != b or a5.cell_to_parent(x, rc) != c:
                ctx.fail('child_parent', case, child=x)
                break
        if rc >= 1 and len(ch) == want:
            # contiguity: the run must be exactly the ids between its ends at that level -> one level up the parents must be the
            # run of the level above (checked recursively by sampling): compare with the expansion in two steps
            mid = (rc + b) // 2
            two = []
            for m in a5.cell_to_children(c, mid):
                two.extend(a5.cell_to_children(m, b))
            if two != ch:
                ctx.fail('expansion_not_compositional', case, mid=mid)
        ctx.sample({'c': c, 'rc': rc, 'b': b, 'children': len(ch)})
        return
    # deep random triples
    import a5.core.serialization as ser
    from a5.core.utils import A5Cell
    from a5.core.origin import origins
    low = [0] + a5.cell_to_children(0, 0) + a5.cell_to_children(0, 1)
    for n in range(spec['n']):
        if n % 5 == 0:
            # other API calls on coarse cells in between (the hierarchy must not depend on what was called before)
            try:
                k = ctx.rnd.randint(1, 3)
                cells = [ctx.rnd.choice(low[:13]) for _ in range(k)] if ctx.rnd.random() < 0.5 else [ctx.rnd.choice(low) for _ in range(k)]
                t = ctx.rnd.randint(max(a5.get_resolution(x) for x in cells), 3)
                out = a5.uncompact(cells, t)
                if ctx.rnd.random() < 0.5:
                    a5.compact(out)
                if ctx.rnd.random() < 0.3 and out:
                    out.reverse()
                    out.pop()
                ctx.count('interleaved_compaction_calls')
            except Exception as e:
                ctx.note('interleaved compaction call raised %r' % (e,))
        rc = ctx.rnd.choice([-1, 0, 1, 2, 3]) if ctx.rnd.random() < 0.25 else ctx.rnd.randint(-1, 29)
        c = 0 if rc == -1 else gen.random_cell(ctx.rnd, a5, rc)
        b = ctx.rnd.randint(rc, min(rc + 3, 29))
        a = ctx.rnd.randint(-1, rc)
        case = {'c': c, 'a': a, 'b': b, 'r': rc}
        ctx.case((c, a, b), nontrivial=(b > rc or a < rc))
        ctx.count('deep_rc%02d' % rc)
        ch = check_children(a5, c, rc, b, ctx, case)
        if ch and rc >= 1 and b > rc:
            lo, hi = min(ch), max(ch)
            d = ser.deserialize(lo)
            d2 = ser.deserialize(hi)
            probes = []
            for cell, dS in ((d, -1), (d, -2), (d2, 1), (d2, 2), (d, ctx.rnd.randint(-50, -1)), (d2, ctx.rnd.randint(1, 50)),
                             (d, ctx.rnd.randint(0, len(ch) - 1))):
                S = cell['S'] + dS
                if b >= 2 and 0 <= S < 4 ** (b - 1):
                    probes.append(A5Cell(origin=cell['origin'], segment=cell['segment'], S=S, resolution=b))
            probes.append(A5Cell(origin=d['origin'], segment=(d['segment'] + 1) % 5, S=d['S'], resolution=b))
            probes.append(A5Cell(origin=origins[(d['origin'].id + 1) % 12], segment=d['segment'], S=d['S'], resolution=b))
            if b >= 2:
                probes.append(A5Cell(origin=d['origin'], segment=d['segment'], S=ctx.rnd.randrange(4 ** (b - 1)), resolution=b))
            for pc in probes:
                try:
                    y = ser.serialize(pc)
                    inrun = lo <= y <= hi
                    isdesc = a5.cell_to_parent(y, rc) == c
                except Exception as e:
                    ctx.fail('range_probe_raises', case, exc=repr(e))
                    continue
                ctx.count('range_probes')
                if inrun != isdesc:
                    ctx.fail('range_vs_descendant', case, y=y, in_run=inrun, is_descendant=isdesc)
                if isdesc and y not in ch:
                    ctx.fail('descendant_missing', case, y=y)
        # hostile caller: scramble the lists the hierarchy handed out, then ask again
        if ch and n % 3 == 0:
            keep = list(ch)
            ch.reverse()
            ch.append(-1)
            del ch[:2]
            r0 = a5.get_res0_cells()
            keep0 = list(r0)
            if len(r0) != 12:
                ctx.fail('res0_cells_depend_on_mutated_earlier_result', case, n=len(r0))
            else:
                r0.pop()
                r0.sort(reverse=True)
            try:
                if a5.cell_to_children(c, b) != keep:
                    ctx.fail('children_depend_on_mutated_earlier_result', case)
                if len(keep0) == 12 and (a5.get_res0_cells() != keep0 or a5.cell_to_children(0, 0) != keep0):
                    ctx.fail('res0_cells_depend_on_mutated_earlier_result', case)
            except Exception as e:
                ctx.fail('children_raises', case, exc=repr(e))
            ctx.count('scramble_and_repeat')
        # parents
        try:
            pa = a5.cell_to_parent(c, a)
            if a5.get_resolution(pa) != a:
                ctx.fail('parent_resolution', case, parent=pa)
            a2 = ctx.rnd.randint(-1, a)
            if a5.cell_to_parent(pa, a2) != a5.cell_to_parent(c, a2):
                ctx.fail('parent_composition', case, a2=a2)
            if a <= rc <= a + 3 and c not in a5.cell_to_children(pa, rc):
                ctx.fail('not_child_of_parent', case, parent=pa)
            if a == -1 and pa != 0:
                ctx.fail('world_parent', case, parent=pa)
        except Exception as e:
            ctx.fail('parent_raises', case, exc=repr(e))
        # defaults
        try:
            if rc < 29 and a5.cell_to_children(c) != a5.cell_to_children(c, rc + 1):
                ctx.fail('default_children', case)
            if rc >= 0 and a5.cell_to_parent(c) != a5.cell_to_parent(c, rc - 1):
                ctx.fail('default_parent', case)
        except Exception as e:
            ctx.fail('default_raises', case, exc=repr(e))
        # error paths: out-of-order requests raise instead of returning cells
        if rc >= 0:
            bad_b = ctx.rnd.randint(-1, rc - 1)
            try:
                out = a5.cell_to_children(c, bad_b)
                ctx.fail('coarser_children_returned', case, bad_b=bad_b, out=out[:3])
            except ValueError:
                ctx.count('error_paths_raised')
            if n % 2 == 1:
                # ... and right after a valid request for that level made on the ancestor of c two levels above it
                try:
                    anc = a5.cell_to_parent(c, max(-1, bad_b - 2))
                    if a5.get_resolution(anc) <= bad_b <= a5.get_resolution(anc) + 4:
                        a5.cell_to_children(anc, bad_b)
                except Exception as e:
                    ctx.fail('children_raises', case, bad_b=bad_b, exc=repr(e))
                try:
                    out = a5.cell_to_children(c, bad_b)
                    ctx.fail('coarser_children_returned', case, bad_b=bad_b, out=out[:3], after_valid_request_on_ancestor=True)
                except ValueError:
                    ctx.count('error_paths_raised_after_related_request')
        if rc < 29:
            bad_a = ctx.rnd.randint(rc + 1, 29) if ctx.rnd.random() < 0.5 else ctx.rnd.randint(rc + 1, min(29, rc + 4))
            try:
                out = a5.cell_to_parent(c, bad_a)
                ctx.fail('finer_parent_returned', case, bad_a=bad_a, out=out)
            except ValueError:
                ctx.count('error_paths_raised')
            if n % 2 == 0:
                # the same out-of-order request right after a valid request for the same target level made on a descendant of c
                # (one per first step below c; then first / last / random children down to the level asked for or beyond it)
                first = a5.cell_to_children(c)
                for x in first:
                    style = ctx.rnd.choice(('first', 'first', 'last', 'random'))
                    bx = min(29, bad_a + ctx.rnd.choice((0, 0, 1, 3)))
                    try:
                        for _lvl in range(a5.get_resolution(x), bx):
                            k = a5.cell_to_children(x)
                            x = k[0] if style == 'first' else (k[-1] if style == 'last' else ctx.rnd.choice(k))
                        pa = a5.cell_to_parent(x, bad_a)
                        if a5.get_resolution(pa) != bad_a or a5.cell_to_parent(pa, rc) != c:
                            ctx.fail('parent_of_descendant', case, x=x, bad_a=bad_a, parent=pa)
                        a5.cell_to_parent(x, bad_a)
                    except Exception as e:
                        ctx.fail('parent_raises', case, x=x, bad_a=bad_a, exc=repr(e))
                        continue
                    try:
                        out = a5.cell_to_parent(c, bad_a)
                        ctx.fail('finer_parent_returned', case, bad_a=bad_a, out=out, after_valid_request_on=x)
                    except ValueError:
                        ctx.count('error_paths_raised_after_related_request')
        try:
            out = a5.cell_to_parent(c, ctx.rnd.randint(-5, -2))
            ctx.fail('negative_parent_returned', case, out=out)
        except ValueError:
            ctx.count('error_paths_raised')
    ctx.sample(case)


def finalize(m, tier):
    inc = []
    if m['counters'].get('range_probes', 0) < 1000:
        inc.append('fewer than 1000 range probes')
    return {'inconclusive': inc, 'explanation': 'levels 0..%d complete; deeper by random triples and range probing' % (6 if tier == 'quick' else 8)}


def replay(f, ctx):
    import a5
    c = f['case']
    if f['kind'] in ('wrong_when_interleaved', 'wrong_after_interleaving'):
        run_shard({'part': 'interleave', 'n': 40, 'seed': 1, 'shard': 0}, ctx)
        return
    if c.get('ladder'):
        from rv.run import Recorder
        run_shard({'part': 'ladder', 'rc': c['a'], 'b': c['b']}, ctx)
        return
    if 'c' in c and 'b' in c:
        rc = a5.get_resolution(c['c'])
        check_children(a5, c['c'], rc, c['b'], ctx, c)
        if f['kind'] in ('children_vs_parent_groups', 'not_contiguous', 'parents_not_level', 'level_size'):
            run_shard({'part': 'levels', 'b': c['b']}, ctx)
    elif 'b' in c:
        run_shard({'part': 'levels', 'b': c['b']}, ctx)
