"""C11 - quantisation error and cell shape are bounded at every level."""
import math

ID = 'C11'
NEEDS_GEO_SELFTEST = True
LEDGER_FILES = ['a5/core/cell.py', 'a5/core/pentagon.py', 'a5/core/tiling.py', 'a5/projections/polyhedral.py',
                'a5/core/coordinate_transforms.py', 'a5/math/vec3.py']
MUST_ENTER = [('a5/core/cell.py', 'lonlat_to_cell'), ('a5/core/cell.py', 'cell_to_lonlat'), ('a5/core/cell.py', 'cell_to_boundary'),
              ('a5/core/tiling.py', 'get_pentagon_vertices'), ('a5/projections/polyhedral.py', '_safe_acos'), ('a5/math/vec3.py', 'slerp'),
              ('a5/math/vec3.py', 'vectorDifference')]
CLASSES = ['uniform', 'polar', 'frame', 'antimeridian', 'wide', 'hug', 'edge', 'seam', 'equator']
RULE = ('(a) points (lon, lat, r) from the hostile generators (uniform, polar, frame, antimeridian, wide, hug), r uniform in 0..29: '
        'authalic great-circle distance from p to the centre of its cell <= 1.0 cell widths; (b) cells: all cells of levels 2..4 (quick) / '
        '2..5 (thorough), structured deep ids, cells located at poles / frame points / antimeridian: the five corners (ring at segments=1) '
        'are pairwise >= 0.1 widths apart and lie 0.35..1.0 widths from the centre. Distances by an independent oracle on the authalic '
        'sphere (closed-form authalic latitude, atan2 angle). distinct = distinct (lon,lat,r) or id; non-trivial = r>=2')
ASSUMPTIONS = ['cell width = sqrt(4 pi / N(r)) rad on the unit authalic sphere, N from the oracle own formula']


def plan(tier, seed):
    specs = [{'part': 'points', 'n': 5000 if tier == 'quick' else 150000} for _ in range(10)]
    top = 4 if tier == 'quick' else 5
    for f in range(12):
        specs.append({'part': 'enum', 'face': f, 'top': top})
    for i in range(4 if tier == 'quick' else 12):
        specs.append({'part': 'cells', 'n': 6000 if tier == 'quick' else 70000})
    return specs


def eval_point(a5, geo, p, r, cls, ctx):
    case = {'lon': p[0], 'lat': p[1], 'r': r, 'cls': cls}
    ctx.case((p, r), nontrivial=r >= 2)
    try:
        c = a5.lonlat_to_cell(p, r)
        ctr = a5.cell_to_lonlat(c)
    except Exception as e:
        ctx.fail('raises', case, exc=repr(e))
        return None
    d = geo.gc_dist((math.fmod(float(p[0]), 360.0), float(p[1])), ctr) / geo.width(r)
    ctx.count('points_%s_%s' % (cls, 'lo' if r < 10 else ('mid' if r < 20 else 'hi')))
    ctx.maxi('quantisation_error_w', d, case)
    if not (d <= 1.0):
        ctx.fail('quantisation_error', case, cell=c, centre=ctr, dist_w=d)
    return c


def eval_cell(a5, geo, c, r, cls, ctx):
    if r < 2:
        return
    case = {'cell': c, 'r': r, 'cls': cls}
    ctx.case(c)
    try:
        ring = a5.cell_to_boundary(c, {'segments': 1, 'closed_ring': False})
        ctr = a5.cell_to_lonlat(c)
    except Exception as e:
        ctx.fail('raises', case, exc=repr(e))
        return
    w = geo.width(r)
    if len(ring) != 5:
        ctx.fail('corner_count', case, n=len(ring))
        return
    vs = [geo.ll_to_vec(*q) for q in ring]
    cv = geo.ll_to_vec(*ctr)
    ds = [geo.ang(v, cv) / w for v in vs]
    sep = min(geo.ang(vs[i], vs[j]) for i in range(5) for j in range(i + 1, 5)) / w
    ctx.count('cells_%s_%s' % (cls, 'lo' if r < 10 else ('mid' if r < 20 else 'hi')))
    ctx.mini('corner_distance_min_w', min(ds), case)
    ctx.maxi('corner_distance_max_w', max(ds), case)
    ctx.mini('corner_separation_min_w', sep, case)
    if min(ds) < 0.35 or max(ds) > 1.0:
        ctx.fail('corner_distance', case, min_w=min(ds), max_w=max(ds))
    if sep < 0.1:
        ctx.fail('corners_not_distinct', case, sep_w=sep)


def run_shard(spec, ctx):
    import a5
    from rv import geo, gen, probe
    probe.count_only([('a5.core.cell', 'cell_to_lonlat'), ('a5.core.cell', 'lonlat_to_cell'), ('a5.core.cell', 'cell_to_boundary')])
    rnd = ctx.rnd
    if spec['part'] == 'points':
        if spec['shard'] % 3 == 0:
            from rv import branch
            bpts = branch.hostile_points(a5, rnd, 120, 100, 60)
            ctx.counters['branch_boundary_points'] = len(bpts)
            for i_ in range(min(3 * len(bpts), 400)):
                r_ = rnd.choice((29, 28, 27, 26, 25, rnd.randint(2, 24)))
                cb = eval_point(a5, geo, branch.near(rnd, bpts[i_ % len(bpts)][0], geo.width(r_)), r_, 'branch', ctx)
                if cb is not None:
                    eval_cell(a5, geo, cb, r_, 'branch', ctx)
        for n in range(spec['n']):
            cls = CLASSES[n % len(CLASSES)]
            p, r = gen.point(rnd, a5, cls)
            c = eval_point(a5, geo, p, r, cls, ctx)
            if c is not None and (n // len(CLASSES)) % 2 == 0:
                eval_cell(a5, geo, c, r, cls, ctx)
        ctx.sample({'lon': p[0], 'lat': p[1], 'r': r})
    elif spec['part'] == 'enum':
        face = a5.cell_to_children(0, 0)[spec['face']]
        for r in range(2, spec['top'] + 1):
            for c in a5.cell_to_children(face, r):
                eval_cell(a5, geo, c, r, 'enum', ctx)
        ctx.sample({'cell': c, 'r': r})
    else:
        for n in range(spec['n']):
            r = rnd.randint(5, 29)
            c = gen.cell_by_path(a5, n % 12, (n // 12) % 5, gen.digits_pattern(rnd, r - 1))
            eval_cell(a5, geo, c, r, 'pattern', ctx)
        ctx.sample({'cell': c, 'r': r})


def finalize(m, tier):
    inc = []
    for cls in CLASSES:
        for band in ('lo', 'hi'):
            if m['counters'].get('points_%s_%s' % (cls, band), 0) < 200:
                inc.append('points class %s/%s below floor' % (cls, band))
    for k in ('cells_enum_lo', 'cells_pattern_hi', 'cells_polar_hi', 'cells_frame_hi'):
        if m['counters'].get(k, 0) < 100:
            inc.append('cells class %s below floor' % k)
    return {'inconclusive': inc}


def replay(f, ctx):
    import a5
    from rv import geo
    c = f['case']
    if 'cell' in c:
        eval_cell(a5, geo, c['cell'], c['r'], c.get('cls', 'replay'), ctx)
    else:
        eval_point(a5, geo, (c['lon'], c['lat']), c['r'], c.get('cls', 'replay'), ctx)
