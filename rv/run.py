"""Runner: ./vcheck <ID> <quick|thorough>  |  ./vcheck replay <path>  |  ./vcheck setup

Parent process: plans shards, runs each as its own subprocess (never multiprocessing.Pool), merges what
the monitors observed, classifies failures against known_findings.json, writes evidence/<ID>.json and
replay files, prints VIOLATION / KNOWN-FINDING / INCONCLUSIVE lines.
Exit codes: 0 held on what was observed, 1 violation, 2 inconclusive / machinery broken.
"""
import array
import concurrent.futures
import hashlib
import importlib
import json
import os
import random
import shutil
import subprocess
import sys
import tempfile
import time

VERIF = os.path.dirname(os.path.dirname(os.path.abspath(__file__)))
PY = '/venv/bin/python'
IDS = ['C%02d' % i for i in range(1, 21)]


def repo_root():
    return os.path.realpath(os.environ.get('VERIF_REPO', '/repo'))


# ----------------------------------------------------------------------------- recorder (in shards)
class Recorder:
    MAX_FAIL_PER_KIND = 25

    def __init__(self, seed, shard):
        self.rnd = random.Random('%s/%s' % (seed, shard))
        self.counters = {}
        self.evaluations = 0
        self.hashes = set()
        self.failures = []
        self.fail_counts = {}
        self._bucket = {}
        self.maxima = {}
        self.minima = {}
        self.samples = []
        self.notes = []
        self.sets = {}

    def count(self, key, n=1):
        self.counters[key] = self.counters.get(key, 0) + n

    def case(self, key, nontrivial=True, n=1):
        """one evaluated case; `key` identifies it (any repr-able value); counted as distinct+nontrivial
        only when `nontrivial`"""
        self.evaluations += n
        if nontrivial:
            h = hashlib.blake2b(repr(key).encode(), digest_size=8).digest()
            self.hashes.add(int.from_bytes(h, 'little'))

    def fail(self, kind, case, bucket=None, **detail):
        self.fail_counts[kind] = self.fail_counts.get(kind, 0) + 1
        if bucket is None and isinstance(case, dict):
            bucket = case.get('r')
        bk = (kind, bucket)
        self._bucket[bk] = self._bucket.get(bk, 0) + 1
        if self._bucket[bk] <= self.MAX_FAIL_PER_KIND and len(self.failures) < 2000:
            d = {'kind': kind, 'case': case}
            d.update(detail)
            if getattr(self, 'shard_spec', None) is not None:
                d['_shard'] = self.shard_spec
            self.failures.append(d)

    def maxi(self, key, value, case=None):
        cur = self.maxima.get(key)
        if cur is None or value > cur[0]:
            self.maxima[key] = [value, case]

    def mini(self, key, value, case=None):
        cur = self.minima.get(key)
        if cur is None or value < cur[0]:
            self.minima[key] = [value, case]

    def setadd(self, name, item):
        self.sets.setdefault(name, set()).add(item)

    def sample(self, case, cap=4):
        if len(self.samples) < cap:
            self.samples.append(case)

    def note(self, text):
        if len(self.notes) < 20:
            self.notes.append(text)


def jsonable(x):
    if isinstance(x, (str, int, bool)) or x is None:
        return x
    if isinstance(x, float):
        if x != x or x in (float('inf'), float('-inf')):
            return repr(x)
        return x
    if isinstance(x, dict):
        return {str(k): jsonable(v) for k, v in x.items()}
    if isinstance(x, (list, tuple, set, frozenset)):
        return [jsonable(v) for v in x]
    return repr(x)


# ----------------------------------------------------------------------------- shard entry point
def shard_main(argv):
    prop, spec_path, out_path = argv
    spec = json.load(open(spec_path))
    import faulthandler
    faulthandler.enable()
    from . import ledger
    mod = importlib.import_module('rv.checks.' + prop.lower())
    root = repo_root()
    files = [os.path.join(root, f) for f in getattr(mod, 'LEDGER_FILES', [])]
    led = ledger.Ledger(files) if files and not spec.get('no_ledger') else None
    if led:
        led.start()
    import a5
    a5file = os.path.realpath(a5.__file__)
    if not a5file.startswith(root + os.sep):
        raise SystemExit('a5 imported from %s, not from %s' % (a5file, root))
    from . import hostile
    hostile.install(a5)
    ctx = Recorder(spec['seed'], spec['shard'])
    ctx.tier = spec['tier']
    ctx.shard_spec = spec
    t0 = time.time()
    try:
        mod.run_shard(spec, ctx)
    except Exception as e:
        # an exception that escapes from inside the library (innermost frame under the tree being checked) for an input of the
        # property's domain is an observation about the library, not a harness failure; anything else is re-raised (shard died)
        import traceback
        tb = traceback.extract_tb(e.__traceback__)
        from .gen import LibraryMisbehaved
        if isinstance(e, LibraryMisbehaved):
            pass
        elif not tb or not os.path.realpath(tb[-1].filename).startswith(root + os.sep):
            raise
        ctx.fail('api_raised_unexpectedly', {'shard_spec': {k: v for k, v in spec.items() if k not in ('pairs',)}},
                 exc=repr(e), where='%s:%d %s' % (os.path.relpath(tb[-1].filename, root), tb[-1].lineno, tb[-1].name),
                 trace=[('%s:%d %s' % (os.path.basename(f.filename), f.lineno, f.name)) for f in tb[-6:]])
    wall = time.time() - t0
    if led:
        led.stop()
    if hostile.COUNTS['results_edited']:
        ctx.count('results_edited_by_hostile_caller', hostile.COUNTS['results_edited'])
    from . import probe
    res = {
        'counters': ctx.counters, 'evaluations': ctx.evaluations, 'failures': jsonable(ctx.failures),
        'fail_counts': ctx.fail_counts, 'maxima': jsonable(ctx.maxima), 'minima': jsonable(ctx.minima),
        'samples': jsonable(ctx.samples), 'notes': ctx.notes, 'sets': {k: sorted(map(repr, v)) for k, v in ctx.sets.items()}, 'probes': probe.counts(),
        'ledger': led.report(root) if led else {}, 'a5_file': a5file, 'wall': wall,
    }
    arr = array.array('Q', sorted(ctx.hashes))
    with open(out_path + '.hashes', 'wb') as f:
        arr.tofile(f)
    with open(out_path, 'w') as f:
        json.dump(res, f)


def _run_one(prop, spec, tmp, timeout):
    sp = os.path.join(tmp, 'spec_%d.json' % spec['shard'])
    op = os.path.join(tmp, 'out_%d.json' % spec['shard'])
    json.dump(spec, open(sp, 'w'))
    env = dict(os.environ)
    env['PYTHONPATH'] = repo_root() + os.pathsep + VERIF
    env['PYTHONPYCACHEPREFIX'] = os.path.join(tmp, 'pyc')
    env['PYTHONHASHSEED'] = '0'
    env['PYTHONDONTWRITEBYTECODE'] = '1'
    try:
        p = subprocess.run([PY, '-B', '-m', 'rv.run', '--shard', prop, sp, op], env=env, cwd=VERIF,
                           capture_output=True, text=True, timeout=timeout)
    except subprocess.TimeoutExpired:
        return spec, None, 'watchdog expired after %ds' % timeout
    if p.returncode != 0 or not os.path.exists(op):
        return spec, None, 'shard died rc=%s: %s' % (p.returncode, (p.stderr or '')[-1500:])
    res = json.load(open(op))
    arr = array.array('Q')
    with open(op + '.hashes', 'rb') as f:
        arr.frombytes(f.read())
    res['hashes'] = arr
    return spec, res, None


# ----------------------------------------------------------------------------- merging
def merge(results):
    m = {'counters': {}, 'evaluations': 0, 'failures': [], 'fail_counts': {}, 'maxima': {}, 'minima': {},
         'samples': [], 'notes': [], 'sets': {}, 'probes': {}, 'ledger': {}, 'a5_file': None, 'shard_wall': []}
    hashes = set()
    for res in results:
        for k, v in res['counters'].items():
            m['counters'][k] = m['counters'].get(k, 0) + v
        m['evaluations'] += res['evaluations']
        m['failures'].extend(res['failures'])
        for k, v in res['fail_counts'].items():
            m['fail_counts'][k] = m['fail_counts'].get(k, 0) + v
        for k, v in res['maxima'].items():
            if k not in m['maxima'] or v[0] > m['maxima'][k][0]:
                m['maxima'][k] = v
        for k, v in res['minima'].items():
            if k not in m['minima'] or v[0] < m['minima'][k][0]:
                m['minima'][k] = v
        if len(m['samples']) < 8:
            m['samples'].extend(res['samples'][:2])
        m['notes'].extend(res['notes'])
        for k, v in res.get('sets', {}).items():
            m['sets'].setdefault(k, set()).update(v)
        for k, v in res['probes'].items():
            m['probes'][k] = m['probes'].get(k, 0) + v
        for f, rep in res['ledger'].items():
            cur = m['ledger'].setdefault(f, {'total': rep['total'], 'hit': set(), 'funcs_total': rep['funcs_total'],
                                             'funcs_hit': set()})
            cur['hit'].update(rep['hit'])
            cur['funcs_hit'].update(rep['funcs_hit'])
        m['a5_file'] = res['a5_file']
        m['shard_wall'].append(round(res['wall'], 2))
        hashes.update(res['hashes'])
    m['distinct'] = len(hashes)
    led = {}
    for f, cur in m['ledger'].items():
        led[f] = {'lines_hit': len(cur['hit']), 'lines_total': cur['total'],
                  'functions_hit': len(cur['funcs_hit']), 'functions_total': len(cur['funcs_total']),
                  'functions_never_entered': sorted(set(cur['funcs_total']) - cur['funcs_hit'])}
    m['ledger_raw'] = {f: cur['funcs_hit'] for f, cur in m['ledger'].items()}
    m['ledger'] = led
    return m


# ----------------------------------------------------------------------------- main check driver
def check_main(prop, tier):
    from . import findings
    seed = int(os.environ.get('VERIF_SEED', '1'))
    mod = importlib.import_module('rv.checks.' + prop.lower())
    t0 = time.time()
    specs = mod.plan(tier, seed)
    for i, s in enumerate(specs):
        s.setdefault('shard', i)
        s['seed'] = seed
        s['tier'] = tier
    timeout = int(os.environ.get('VERIF_WATCHDOG', '900' if tier == 'quick' else '14400'))
    jobs = int(os.environ.get('VERIF_JOBS', str(os.cpu_count() or 4)))
    tmp = tempfile.mkdtemp(prefix='rv_%s_' % prop)
    inconclusive = []
    results = []
    try:
        if getattr(mod, 'NEEDS_GEO_SELFTEST', False):
            from . import geo
            st = geo.selftest()
            if not st['ok']:
                print('INCONCLUSIVE property=%s reason=oracle self-test failed %s' % (prop, st))
                return 2
        with concurrent.futures.ThreadPoolExecutor(max_workers=jobs) as ex:
            futs = [ex.submit(_run_one, prop, s, tmp, timeout) for s in specs]
            for f in futs:
                spec, res, err = f.result()
                if err:
                    inconclusive.append('shard %d: %s' % (spec['shard'], err))
                else:
                    results.append(res)
    finally:
        shutil.rmtree(tmp, ignore_errors=True)
    if not results:
        print('INCONCLUSIVE property=%s reason=%s' % (prop, '; '.join(inconclusive)[:3000]))
        return 2
    m = merge(results)
    # check-specific cross-shard verdicts / floors
    fin = mod.finalize(m, tier) or {}
    inconclusive.extend(fin.get('inconclusive', []))
    for f in fin.get('failures', []):
        m['failures'].append(f)
        m['fail_counts'][f['kind']] = m['fail_counts'].get(f['kind'], 0) + 1
    # functions that must have been entered
    for rel, fn in getattr(mod, 'MUST_ENTER', []):
        full = os.path.join(repo_root(), rel)
        if fn not in m['ledger_raw'].get(full, set()) and not any(s.get('no_ledger') for s in specs):
            inconclusive.append('function %s:%s named in the property mechanism was never entered' % (rel, fn))
    known, viol = findings.classify(prop, m['failures'])
    wall = time.time() - t0
    # replay files
    replay_dir = os.environ.get('VERIF_REPLAY_DIR', os.path.join(VERIF, 'replay'))
    evidence_dir = os.environ.get('VERIF_EVIDENCE_DIR', os.path.join(VERIF, 'evidence'))
    os.makedirs(replay_dir, exist_ok=True)
    lines = []
    seen_kinds = {}
    for n, f in enumerate(viol):
        k = f['kind']
        seen_kinds[k] = seen_kinds.get(k, 0) + 1
        if seen_kinds[k] > 3 or len(lines) >= 12:
            continue
        path = os.path.join(os.path.relpath(replay_dir, VERIF), '%s-%s-%d.json' % (prop, seed, n))
        json.dump({'property': prop, 'tier': tier, 'seed': seed, 'failure': f}, open(os.path.join(VERIF, path), 'w'),
                  indent=1)
        lines.append('VIOLATION property=%s replay=%s kind=%s detail=%s' % (prop, path, k, json.dumps(
            {a: b for a, b in f.items() if a not in ('kind',)})[:400]))
    nviol_total = sum(c for k, c in m['fail_counts'].items()
                      if any(v['kind'] == k for v in viol))
    ev = {
        'property_id': prop, 'tier': tier, 'seed': seed, 'level': 'exploration',
        'coverage': {
            'evaluations': m['evaluations'], 'distinct_nontrivial': m['distinct'], 'rule': mod.RULE,
            'samples': m['samples'] or ['(no sample recorded)'],
            'exhaustive': bool(fin.get('exhaustive', False)),
            'explanation': fin.get('explanation', ''),
            'classes': dict(sorted(m['counters'].items())),
            'maxima_observed': m['maxima'], 'minima_observed': m['minima'],
            'probe_calls': m['probes'], 'line_reach': m['ledger'],
            'failure_counts': m['fail_counts'],
            'distinct_observed': {k: {'count': len(v), 'examples': sorted(v)[:6]} for k, v in m['sets'].items()},
            'known_findings_matched': {k: len(v) for k, v in known.items()},
            'inconclusive_reasons': inconclusive, 'notes': m['notes'][:20],
            'a5_file': m['a5_file'], 'shards': len(specs), 'shard_wall_s': m['shard_wall'],
        },
        'assumptions': getattr(mod, 'ASSUMPTIONS', []),
        'wall_s': round(wall, 2),
        'violations': len(viol),
    }
    os.makedirs(evidence_dir, exist_ok=True)
    with open(os.path.join(evidence_dir, prop + '.json'), 'w') as f:
        json.dump(jsonable(ev), f, indent=1)
        f.write('\n')
    print('%s %s seed=%d: %d evaluations, %d distinct non-trivial, %d shards, %.1fs; tree=%s' % (
        prop, tier, seed, m['evaluations'], m['distinct'], len(specs), wall, m['a5_file']))
    for k, v in sorted(m['maxima'].items()):
        print('  max %-34s %s' % (k, v[0]))
    for k, v in sorted(m['minima'].items()):
        print('  min %-34s %s' % (k, v[0]))
    for cls, fl in known.items():
        print('KNOWN-FINDING: property=%s %s (%d cases this run)' % (prop, findings.describe(prop, cls), len(fl)))
    for ln in lines:
        print(ln)
    if viol:
        print('  %d violating cases recorded (%s)' % (len(viol), {k: v for k, v in m['fail_counts'].items()}))
        return 1
    if inconclusive:
        print('INCONCLUSIVE property=%s reason=%s' % (prop, '; '.join(inconclusive)[:3000]))
        return 2
    print('HELD property=%s on everything observed' % prop)
    return 0


def replay_main(path):
    d = json.load(open(path))
    prop = d['property']
    os.environ.setdefault('PYTHONHASHSEED', '0')
    sys.path.insert(0, repo_root())
    mod = importlib.import_module('rv.checks.' + prop.lower())
    import a5
    from . import hostile
    hostile.install(a5)
    ctx = Recorder(d.get('seed', 1), 'replay')
    ctx.tier = d.get('tier', 'quick')
    f = d['failure']
    print('replaying %s kind=%s' % (prop, f['kind']))
    print('recorded:', json.dumps(f)[:2000])
    if f['kind'] == 'api_raised_unexpectedly':
        spec = dict(f['case']['shard_spec'])
        try:
            import a5  # noqa
            r2 = Recorder(spec.get('seed', 1), spec.get('shard', 0))
            r2.tier = spec.get('tier', 'quick')
            mod.run_shard(spec, r2)
        except Exception as e:
            ctx.fail('api_raised_unexpectedly', f['case'], exc=repr(e))
    else:
        try:
            mod.replay(f, ctx)
        except Exception as e:
            import traceback
            from .gen import LibraryMisbehaved
            tb = traceback.extract_tb(e.__traceback__)
            root = repo_root()
            if not isinstance(e, LibraryMisbehaved) and (not tb or not os.path.realpath(tb[-1].filename).startswith(root + os.sep)):
                print('this failure kind has no single-case replay (%r); re-run the check with VERIF_SEED=%s to reproduce it' % (e, d.get('seed')))
                return 2
            ctx.fail('api_raised_unexpectedly', f.get('case'), exc=repr(e),
                     where='%s:%d %s' % (os.path.basename(tb[-1].filename), tb[-1].lineno, tb[-1].name) if tb else '')
    if not ctx.failures and f.get('_shard') and f['kind'] != 'api_raised_unexpectedly':
        # the case alone does not reproduce: the violation may depend on what ran before it (history, cache state, schedule).
        # Re-run the shard that observed it - same seed, same shard number, hence the same workload
        print('single case did not reproduce; re-running the recorded shard %r' % ({k: v for k, v in f['_shard'].items() if k != 'pairs'},))
        spec = dict(f['_shard'])
        r2 = Recorder(spec.get('seed', 1), spec.get('shard', 0))
        r2.tier = spec.get('tier', 'quick')
        try:
            import a5  # noqa
            mod.run_shard(spec, r2)
        except Exception as e:
            r2.fail('api_raised_unexpectedly', f.get('case'), exc=repr(e))
        same = [x for x in r2.failures if x['kind'] == f['kind']] or r2.failures
        ctx.failures.extend(same[:5])
    if ctx.failures:
        from . import findings
        known, viol = findings.classify(prop, jsonable(ctx.failures))
        for x in ctx.failures:
            print('REPRODUCED:', json.dumps(jsonable(x))[:2000])
        for cls in known:
            print('KNOWN-FINDING: property=%s %s' % (prop, findings.describe(prop, cls)))
        if viol:
            print('VIOLATION property=%s replay=%s' % (prop, path))
            return 1
        return 0
    print('not reproduced on this tree')
    return 0


def setup_main():
    from . import geo
    ok = True
    st = geo.selftest()
    print('geo self-test:', st)
    ok &= st['ok']
    if not st['mpmath']:
        print('note: mpmath wheel not found; closed-form authalic oracle not cross-checked this run')
    env = dict(os.environ, PYTHONPATH=repo_root() + os.pathsep + VERIF)
    p = subprocess.run([PY, '-B', '-c', 'import a5,sys;print(a5.__file__, sys.version_info[:3], hasattr(sys,"monitoring"))'],
                       env=env, capture_output=True, text=True)
    print('interpreter:', p.stdout.strip(), p.stderr.strip()[-300:])
    ok &= p.returncode == 0 and 'True' in p.stdout
    for i in IDS:
        try:
            importlib.import_module('rv.checks.' + i.lower())
        except Exception as e:  # pragma: no cover
            print('check module', i, 'failed to import:', e)
            ok = False
    print('setup', 'ok' if ok else 'FAILED')
    return 0 if ok else 1


def ambient_main():
    """diagnostic, not a registered check: the repository's own tests as a workload with cheap post-conditions attached"""
    root = repo_root()
    out = tempfile.mktemp(prefix='rv_ambient_', suffix='.json')
    env = dict(os.environ, PYTHONPATH=root + os.pathsep + VERIF, RV_AMBIENT_OUT=out, PYTHONDONTWRITEBYTECODE='1')
    p = subprocess.run([PY, '-B', '-m', 'pytest', '-q', '-p', 'no:cacheprovider', '-p', 'rv.ambient', os.path.join(root, 'tests')],
                       cwd=root, env=env, capture_output=True, text=True)
    print('\n'.join(p.stdout.splitlines()[-14:]))
    rep = json.load(open(out)) if os.path.exists(out) else {'violations': ['no report written'], 'probe_calls': {}}
    if os.path.exists(out):
        os.remove(out)
    return 1 if rep['violations'] else 0


def main():
    a = sys.argv[1:]
    if a and a[0] == 'ambient':
        return ambient_main()
    if a and a[0] == '--shard':
        shard_main(a[1:])
        return 0
    if a and a[0] == 'replay':
        return replay_main(a[1])
    if a and a[0] == 'setup':
        return setup_main()
    prop = a[0].upper()
    tier = a[1] if len(a) > 1 else os.environ.get('VERIF_TIER', 'quick')
    return check_main(prop, tier)


if __name__ == '__main__':
    sys.exit(main())
