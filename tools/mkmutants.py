#!/usr/bin/env python3
"""Builds /verif/mutants/<name>/{patch.diff,meta.json} from (file, old, new) edits applied to a scratch copy of /repo/a5."""
import json, os, shutil, subprocess, tempfile
V = os.path.dirname(os.path.dirname(os.path.abspath(__file__)))
M = [
 ('spiral_10_samples', 'C01', 'a5/core/cell.py', "    N = 25\n", "    N = 10\n", 'fewer neighbour-search samples: points near cell corners get a neighbouring cell'),
 ('safe_acos_threshold', 'C13', 'a5/projections/polyhedral.py', "if x < 1e-3:", "if x < 2e-1:", 'small-angle series used far outside its range'),
 ('auto_segments_off_by_one', 'C12', 'a5/core/cell.py', "segments = max(1, 2 ** (6 - cell[\"resolution\"]))", "segments = max(1, 2 ** (5 - cell[\"resolution\"]))", 'auto segment rule halves the vertex count'),
 ('no_final_reverse', 'C12', 'a5/core/cell.py', "    normalized_boundary.reverse()\n", "", 'rings come out clockwise'),
 ('world_children_one_segment', 'C06', 'a5/core/serialization.py', "    if (current_resolution == -1 and new_resolution > 0) or current_resolution == 0:", "    if current_resolution == 0:", 'world cell fans out to one segment per face for resolutions >= 1'),
 ('S_bound_off_by_one', 'C05', 'a5/core/serialization.py', "if S >= (1 << hilbert_bits):", "if S > (1 << hilbert_bits):", 'S == 4^(r-1) is accepted and silently encodes another cell'),
 ('compact_first_last_only', 'C08', 'a5/core/compact.py', "                    for j in range(1, expected_children):", "                    for j in (expected_children - 1,):", 'only the last sibling is compared with the stride, the middle ones are not'),
 ('compact_no_dedup', 'C09', 'a5/core/compact.py', "sorted(set(cells), key=_hierarchical_key)", "sorted(cells, key=_hierarchical_key)", 'duplicates survive and block sibling detection'),
 ('uncompact_sorts_argument', 'C10', 'a5/core/compact.py', "    n = 0\n    resolutions = []\n", "    n = 0\n    resolutions = []\n    if isinstance(cells, list):\n        cells.sort()\n", 'argument list sorted in place'),
 ('hex_upper_for_high_bit', 'C19', 'a5/core/hex.py', "    return hex(value)[2:]  # Remove '0x' prefix", "    return hex(value)[2:].upper() if value >> 63 else hex(value)[2:]", 'upper-case output when bit 63 is set'),
 ('authalic_coefficient', 'C15', 'a5/projections/authalic.py', "2.1308606513250217e-06,", "2.1318606513250217e-06,", 'second forward coefficient perturbed by 1e-9'),
 ('slerp_global_scratch', 'C16', 'a5/math/vec3.py', "    scaledA = create()\n    scaledB = create()\n    weight_a", "    global scaledA, scaledB\n    weight_a", 'slerp uses the module-level scratch vectors again'),
 ('res0_cells_cached_list', 'C17', 'a5/core/serialization.py', "    return cell_to_children(WORLD_CELL, 0)\n", "    global _RES0\n    try:\n        return _RES0\n    except NameError:\n        _RES0 = cell_to_children(WORLD_CELL, 0)\n        return _RES0\n", 'get_res0_cells returns one shared list object'),
 ('reflected_scale', 'C13', 'a5/projections/dodecahedron.py', "if squashed else 2\n", "if squashed else 2.0001\n", 'mirror triangle apex slightly misplaced'),
 ('children_swapped_deep', 'C06', 'a5/core/serialization.py', "                new_S = shifted_S + i\n", "                new_S = shifted_S + (i ^ 1 if new_resolution >= 24 and children_count == 4 else i)\n", 'children listed out of order at deep levels'),
 ('cell_area_res30', 'C20', 'a5/core/cell_info.py', "    return AUTHALIC_AREA / get_num_cells(resolution)", "    return AUTHALIC_AREA / get_num_cells(min(resolution, 29))", 'cell_area(30) repeats the value of 29'),
 ('lon_wrap_threshold', 'C02', 'a5/core/cell.py', "    if longitude < -180:\n        longitude += 360", "    if longitude < -200:\n        longitude += 360", 'centres with longitude in (-200,-180) not wrapped'),
 ('quintant_first_face7', 'C02', 'a5/core/origin.py', "QUINTANT_FIRST = [4, 2, 3, 2, 0, 4, 3, 2, 2, 0, 3, 0]", "QUINTANT_FIRST = [4, 2, 3, 2, 0, 4, 3, 1, 2, 0, 3, 0]", 'wrong first quintant on one face'),
 ('hilbert_pattern', 'C18', 'a5/core/hilbert.py', "PATTERN_FLIPPED = [0, 1, 2, 7, 3, 4, 5, 6]", "PATTERN_FLIPPED = [0, 1, 2, 7, 3, 4, 6, 5]", 'one entry of the flipped shift pattern swapped'),
 ('pentagon_vertex_c', 'C04', 'a5/core/pentagon.py', "c = cast(Face, (0.7885966681787006, 1.6149108024237764))", "c = cast(Face, (0.7886066681787006, 1.6149108024237764))", 'pentagon vertex moved by 1e-5: cells no longer equal-area / edge matched'),
 ('normalize_lon_threshold', 'C12', 'a5/core/coordinate_transforms.py', "        while longitude - center_lon > 180:", "        while longitude - center_lon > 270:", 'antimeridian normalisation too lax'),
 ('vec_diff_factor', 'C14', 'a5/projections/polyhedral.py', "        h = 1 - b[0]\n        R = b[2] / h", "        h = 1 - b[0]\n        R = b[2] / h * (1 + 2e-5 * b[1])", 'inverse map slightly non equal-area inside triangles'),
 ('drift_children_order', 'C07', 'a5/core/serialization.py', "    resolution_diff = current_resolution - new_resolution\n    shifted_S = S >> (2 * resolution_diff)", "    resolution_diff = current_resolution - new_resolution\n    shifted_S = (S >> (2 * resolution_diff)) ^ (1 if new_resolution >= 2 and resolution_diff >= 9 else 0)", 'far ancestors (9+ levels up) are the sibling of the true ancestor'),
 ('quantisation_fallback', 'C11', 'a5/core/cell.py', "    cells.sort(key=lambda x: x['distance'], reverse=True)", "    cells.sort(key=lambda x: x['distance'])", 'fallback picks the farthest instead of the closest estimate'),
 ('boundary_edge_split_after', 'C03', 'a5/geometry/pentagon.py', "                t = j / segments\n", "                t = (j / segments) ** 1.0001\n", 'edge subdivision not symmetric: neighbours disagree on intermediate vertices'),
]
out = os.path.join(V, 'mutants')
os.makedirs(out, exist_ok=True)
for name, prop, rel, old, new, what in M:
    d = tempfile.mkdtemp(prefix='rv_mkmut_')
    try:
        for side in ('a', 'b'):
            shutil.copytree('/repo/a5', os.path.join(d, side, 'a5'), ignore=shutil.ignore_patterns('__pycache__'))
        p = os.path.join(d, 'b', rel)
        s = open(p).read()
        if s.count(old) != 1:
            print('SKIP', name, 'pattern count', s.count(old))
            continue
        open(p, 'w').write(s.replace(old, new))
        diff = subprocess.run(['diff', '-ru', 'a/' + rel, 'b/' + rel], cwd=d, capture_output=True, text=True).stdout
        os.makedirs(os.path.join(out, name), exist_ok=True)
        open(os.path.join(out, name, 'patch.diff'), 'w').write(diff)
        json.dump({'property': prop, 'what': what, 'origin': 'own corpus (tools/mkmutants.py)'}, open(os.path.join(out, name, 'meta.json'), 'w'), indent=1)
    finally:
        shutil.rmtree(d, ignore_errors=True)
print(len(os.listdir(out)), 'mutants')
