"""Known-findings classifier. known_findings.json is committed and never written at run time.

A 'known' entry carries a mechanism-level predicate (failure kind + ranges / substrings on fields of the
failing case), never a hash, a seed or a literal random value. 'fixed' entries suppress nothing.
"""
import json
import os

PATH = os.path.join(os.path.dirname(os.path.dirname(os.path.abspath(__file__))), 'known_findings.json')


def load():
    if not os.path.exists(PATH):
        return []
    return json.load(open(PATH)).get('findings', [])


def _get(f, field):
    if field in f:
        return f[field]
    c = f.get('case')
    if isinstance(c, dict) and field in c:
        return c[field]
    return None


def _match(pred, f):
    kinds = pred.get('kind')
    if kinds and f.get('kind') not in kinds:
        return False
    for field, cond in pred.get('where', {}).items():
        v = _get(f, field)
        if v is None:
            return False
        if 'eq' in cond and v != cond['eq']:
            return False
        if 'min' in cond and not (v >= cond['min']):
            return False
        if 'max' in cond and not (v <= cond['max']):
            return False
        if 'contains' in cond and cond['contains'] not in str(v):
            return False
    return True


def classify(prop, failures):
    entries = [e for e in load() if e.get('status') == 'known' and e.get('property') == prop]
    known, viol = {}, []
    for f in failures:
        for e in entries:
            if _match(e['predicate'], f):
                known.setdefault(e['class'], []).append(f)
                break
        else:
            viol.append(f)
    return known, viol


def describe(prop, cls):
    for e in load():
        if e.get('property') == prop and e.get('class') == cls:
            return '%s: %s' % (cls, e.get('what', ''))
    return cls
