"""Deterministic preemption injector (sys.monitoring tool 3) and real-thread stressor.

inject(A, B, k): run A(); inside the callback of A's k-th LINE (or INSTRUCTION) event run B() to completion and
resume A. This is the schedule 'thread 1 preempted at that point, thread 2 runs B entirely, thread 1 resumes'
(context bound 2) reproduced on one thread; with the GIL a real preemption there is indistinguishable from it.
"""
import os
import sys
import threading
import time
import types

mon = sys.monitoring
TOOL = 3


class Injector:
    def __init__(self, a5dir):
        self.a5dir = a5dir
        self.count = 0
        self.target = -1
        self.inside = False
        self.B = None
        self.where = None
        self.bres = None
        self.bexc = None
        self.mode = 'line'
        self.codes = []
        self.sites = set()
        self.trace = None
        mon.use_tool_id(TOOL, 'rv-sched')
        mon.register_callback(TOOL, mon.events.LINE, self._line)
        mon.register_callback(TOOL, mon.events.INSTRUCTION, self._instr)

    def close(self):
        mon.set_events(TOOL, 0)
        for c in self.codes:
            mon.set_local_events(TOOL, c, 0)
        mon.register_callback(TOOL, mon.events.LINE, None)
        mon.register_callback(TOOL, mon.events.INSTRUCTION, None)
        mon.free_tool_id(TOOL)

    def _fire(self, code, pos):
        self.inside = True
        self.where = (os.path.relpath(code.co_filename, self.a5dir), code.co_name, pos)
        self.sites.add(self.where)
        try:
            self.bres = self.B()
        except BaseException as e:  # B raising is an observation, never propagates into A
            self.bexc = e
        finally:
            self.inside = False

    def _line(self, code, lineno):
        if not code.co_filename.startswith(self.a5dir):
            return mon.DISABLE
        if self.inside:
            return
        self.count += 1
        if self.trace is not None:
            self.trace.append((code.co_filename, code.co_name, lineno))
        if self.count == self.target:
            self._fire(code, lineno)

    def _instr(self, code, offset):
        if self.inside:
            return
        self.count += 1
        if self.count == self.target:
            self._fire(code, offset)

    def set_instruction_targets(self, modules):
        """INSTRUCTION events are local to the code objects of the given modules"""
        self.codes = []
        for m in modules:
            for v in vars(m).values():
                self._collect(v, m.__name__)

    def _collect(self, obj, modname):
        if isinstance(obj, types.FunctionType) and obj.__module__ == modname:
            self.codes.append(obj.__code__)
            for c in obj.__code__.co_consts:
                if hasattr(c, 'co_code'):
                    self.codes.append(c)
        elif isinstance(obj, type) and obj.__module__ == modname:
            for v in vars(obj).values():
                self._collect(v, modname)

    def run(self, A, B, k, mode='line'):
        """returns ('ok', result) or ('exc', exception) for A; B's outcome in self.bres / self.bexc"""
        self.count = 0
        self.target = k
        self.B = B
        self.where = None
        self.bres = None
        self.bexc = None
        if mode == 'line':
            mon.set_events(TOOL, mon.events.LINE)
        else:
            for c in self.codes:
                mon.set_local_events(TOOL, c, mon.events.INSTRUCTION)
        try:
            return 'ok', A()
        except BaseException as e:
            return 'exc', e
        finally:
            if mode == 'line':
                mon.set_events(TOOL, 0)
            else:
                for c in self.codes:
                    mon.set_local_events(TOOL, c, 0)

    def trace_of(self, A):
        """list of (file, function, line) for every LINE event of A"""
        self.trace = []
        try:
            self.run(A, lambda: None, -1, 'line')
            return self.trace
        finally:
            self.trace = None

    def events_in(self, A, mode='line'):
        self.run(A, lambda: None, -1, mode)
        return self.count


def canon(x):
    """bit-exact canonical encoding of an API result"""
    if isinstance(x, float):
        return x.hex()
    if isinstance(x, (list, tuple)):
        return [canon(v) for v in x]
    if isinstance(x, dict):
        return {k: canon(v) for k, v in sorted(x.items())}
    return x


def thread_stress(ops, expected, n_threads, seconds, seed, switch=1e-6, watchdog=None):
    """ops: list of zero-arg callables; expected: canonical results. Returns dict with counts and the first
    wrong results / exceptions. Wall-clock only bounds the run; a watchdog expiry is 'inconclusive'."""
    import random
    old = sys.getswitchinterval()
    sys.setswitchinterval(switch)
    stop_at = time.time() + seconds
    wrong, excs = [], []
    counts = [0] * n_threads
    barrier = threading.Barrier(n_threads)

    def worker(t):
        rnd = random.Random('%s/%s' % (seed, t))
        barrier.wait()
        n = 0
        while time.time() < stop_at:
            i = rnd.randrange(len(ops))
            try:
                r = canon(ops[i]())
                if r != expected[i]:
                    if len(wrong) < 20:
                        wrong.append({'op': i, 'thread': t, 'n': n})
            except BaseException as e:
                if len(excs) < 20:
                    excs.append({'op': i, 'thread': t, 'exc': repr(e)})
            n += 1
        counts[t] = n
    ts = [threading.Thread(target=worker, args=(t,), daemon=True) for t in range(n_threads)]
    t0 = time.time()
    for t in ts:
        t.start()
    hung = False
    for t in ts:
        t.join(timeout=(watchdog or seconds * 10 + 60))
        if t.is_alive():
            hung = True
    sys.setswitchinterval(old)
    return {'ops': sum(counts), 'per_thread': counts, 'wrong': wrong, 'exceptions': excs, 'hung': hung, 'wall': time.time() - t0}
