#!/usr/bin/env python3
"""ingest_round.py <worktree prefix e.g. /tmp/w7_> <tag e.g. r7>: confirm and file every _seed/{A,B,C,...} of every worktree, blind
(the 'needs' text is taken from the agent's own notes.md)."""
import glob, os, re, subprocess, sys
V = os.path.dirname(os.path.dirname(os.path.abspath(__file__)))
prefix, tag = sys.argv[1], sys.argv[2]
for wt in sorted(glob.glob(prefix + 'C*')):
    prop = re.search(r'(C\d\d)', os.path.basename(wt)).group(1)
    for d in sorted(glob.glob(os.path.join(wt, '_seed', '*'))):
        ab = os.path.basename(d)
        if not os.path.isfile(os.path.join(d, 'patch.diff')) or not os.path.isfile(os.path.join(d, 'demo.py')):
            continue
        name = '%s_%s%s' % (prop, tag, re.sub(r'[^A-Za-z0-9]', '', ab)[:8])
        if os.path.isdir(os.path.join(V, 'seeded', name)):
            continue
        notes = ''
        if os.path.exists(os.path.join(d, 'notes.md')):
            notes = ' '.join(open(os.path.join(d, 'notes.md')).read().split())[:400]
        p = subprocess.run(['/venv/bin/python', os.path.join(V, 'tools', 'confirm_seed.py'), wt, prop, ab, name, notes or 'see notes.md'],
                           capture_output=True, text=True)
        print((p.stdout.strip().splitlines() or [p.stderr[-200:]])[-1][:200], flush=True)
