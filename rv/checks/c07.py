"""C07 - the id hierarchy is spatially coherent (descendants stay near their ancestor)."""
import math

ID = 'C07'
NEEDS_GEO_SELFTEST = True
LEDGER_FILES = ['a5/core/hilbert.py', 'a5/core/origin.py', 'a5/core/serialization.py', 'a5/core/cell.py', 'a5/core/tiling.py']
MUST_ENTER = [('a5/core/serialization.py', 'cell_to_children'), ('a5/core/serialization.py', 'cell_to_parent'), ('a5/core/cell.py', 'cell_to_lonlat'),
              ('a5/core/hilbert.py', '_shift_digits'), ('a5/core/hilbert.py', 's_to_anchor')]
RULE = ('(a) random descent paths from cells of every (face, segment) and r in 0..28, one child choice per level down to r+12 or 29: every '
        '(ancestor, descendant) pair on the path must have centres within 1.5 ancestor widths; (b) adversarial beam search (beam 64, all '
        'children expanded per level) that maximises the drift from the start cell; (c) points from the hostile generators: distance from p '
        'to the centre of parent(cell(p, r), r2) <= 2.5 w(r2) for several r2 < r; (d) nesting of the 12 faces and their 5 segments: each '
        'segment ring = face centre + two adjacent face corners (1e-9 rad), five different corner pairs, outer edges coincide vertex for '
        'vertex with the face edge, areas sum to the face area (1e-6). Distances: independent authalic great-circle oracle. '
        'distinct = distinct (ancestor, descendant) pairs / (p, r, r2); non-trivial = descendant at least one level below')
ASSUMPTIONS = ['width w(r) = sqrt(4 pi / N(r)) on the unit authalic sphere']


def plan(tier, seed):
    specs = [{'part': 'nesting'}]
    for i in range(8 if tier == 'quick' else 24):
        specs.append({'part': 'paths', 'n': 640 if tier == 'quick' else 8400})
    for i in range(4 if tier == 'quick' else 20):
        specs.append({'part': 'beam', 'n': 15 if tier == 'quick' else 60})
    for i in range(2 if tier == 'quick' else 8):
        specs.append({'part': 'families', 'n': 150 if tier == 'quick' else 1500})
    for i in range(3 if tier == 'quick' else 8):
        specs.append({'part': 'points', 'n': 4000 if tier == 'quick' else 60000})
    return specs


def centre_vec(a5, geo, c):
    return geo.ll_to_vec(*a5.cell_to_lonlat(c))


def run_path(a5, geo, c, r, ctx, cls, choose, jumps=False):
    chain = [(c, r, centre_vec(a5, geo, c))]
    depth = min(29, r + 12)
    cur, cr = c, r
    while cr < depth:
        if jumps and cr + 2 <= depth and ctx.rnd.random() < 0.25:
            # several levels in one call (up to 4^5 or 5 x 4^4 descendants), then one of them
            j = ctx.rnd.randint(2, min(7 if cr >= 0 else 3, depth - cr))
            kids = a5.cell_to_children(cur, cr + j)
            prev = cur
            cur = kids[ctx.rnd.randrange(len(kids))]
            cr += j
            if a5.cell_to_parent(cur, cr - j) != prev:
                ctx.fail('listed_descendant_has_another_ancestor', {'ancestor': prev, 'descendant': cur, 'r': cr - j, 'rd': cr, 'cls': cls})
        else:
            kids = a5.cell_to_children(cur)
            cur = kids[choose(len(kids))]
            cr += 1
        v = centre_vec(a5, geo, cur)
        for (ac, ar, av) in chain:
            d = geo.ang(v, av) / geo.width(ar)
            ctx.case((ac, cur))
            ctx.maxi('descendant_drift_w', d, {'ancestor': ac, 'descendant': cur, 'r': ar, 'rd': cr})
            if d > 1.5:
                ctx.fail('descendant_drift', {'ancestor': ac, 'descendant': cur, 'r': ar, 'rd': cr, 'cls': cls}, drift_w=d)
        chain.append((cur, cr, v))
    ctx.count('paths_%s' % cls)


def run_beam(a5, geo, c, r, ctx, width=64):
    av = centre_vec(a5, geo, c)
    w = geo.width(r)
    beam = [(0.0, c)]
    depth = min(29, r + 12)
    cr = r
    while cr < depth:
        cand = []
        for _, x in beam:
            for k in a5.cell_to_children(x):
                d = geo.ang(centre_vec(a5, geo, k), av) / w
                cand.append((d, k))
                ctx.case((c, k))
        cr += 1
        cand.sort(reverse=True)
        beam = cand[:width]
        d, k = beam[0]
        ctx.maxi('beam_drift_w', d, {'ancestor': c, 'descendant': k, 'r': r, 'rd': cr})
        if d > 1.5:
            ctx.fail('descendant_drift', {'ancestor': c, 'descendant': k, 'r': r, 'rd': cr, 'cls': 'beam'}, drift_w=d)
    ctx.count('beams')


def check_pair(a5, geo, f, ctx):
    c = f['case']
    d = geo.ang(centre_vec(a5, geo, c['descendant']), centre_vec(a5, geo, c['ancestor'])) / geo.width(c['r'])
    if a5.cell_to_parent(c['descendant'], c['r']) != c['ancestor']:
        print('note: descendant no longer maps to that ancestor')
    if d > 1.5:
        ctx.fail('descendant_drift', c, drift_w=d)


def eval_point(a5, geo, p, r, cls, ctx):
    try:
        c = a5.lonlat_to_cell(p, r)
    except Exception as e:
        ctx.fail('raises', {'lon': p[0], 'lat': p[1], 'r': r}, exc=repr(e))
        return
    pv = geo.ll_to_vec(math.fmod(float(p[0]), 360.0), float(p[1]))
    for r2 in sorted({ctx.rnd.randint(0, r - 1) for _ in range(3)} | {r - 1, max(0, r - 2)}):
        case = {'lon': p[0], 'lat': p[1], 'r': r, 'r2': r2, 'cls': cls}
        ctx.case((p, r, r2))
        try:
            anc = a5.cell_to_parent(c, r2)
            d = geo.ang(pv, centre_vec(a5, geo, anc)) / geo.width(r2)
        except Exception as e:
            ctx.fail('raises', case, exc=repr(e))
            continue
        ctx.maxi('point_to_ancestor_centre_w', d, case)
        ctx.count('points_%s' % cls)
        if d > 2.5:
            ctx.fail('point_far_from_ancestor', case, ancestor=anc, dist_w=d)


def nesting(a5, geo, ctx):
    faces = a5.cell_to_children(0, 0)
    for fi, f in enumerate(faces):
        case = {'face': fi, 'cell': f}
        k = 4
        fring = [geo.ll_to_vec(*q) for q in a5.cell_to_boundary(f, {'segments': k, 'closed_ring': True})[:-1]]
        fcorn = [fring[i * k] for i in range(5)]
        fc = centre_vec(a5, geo, f)
        farea = geo.laea_area([geo.ll_to_vec(*q) for q in a5.cell_to_boundary(f, {'segments': 256, 'closed_ring': False})])
        pairs = set()
        tot = 0.0
        segs = a5.cell_to_children(f)
        if len(segs) != 5:
            ctx.fail('segment_count', case, n=len(segs))
        for s in segs:
            scase = dict(case, segment=s)
            ctx.case(('nest', s))
            sring = [geo.ll_to_vec(*q) for q in a5.cell_to_boundary(s, {'segments': k, 'closed_ring': True})[:-1]]
            if len(sring) != 3 * k:
                ctx.fail('segment_ring_shape', scase, n=len(sring))
                continue
            corners = [sring[i * k] for i in range(3)]
            idx = []
            for cv in corners:
                if geo.ang(cv, fc) <= 1e-9:
                    idx.append('c')
                    continue
                m = [i for i in range(5) if geo.ang(cv, fcorn[i]) <= 1e-9]
                idx.append(m[0] if m else None)
                ctx.maxi('nesting_corner_mismatch_rad', min(geo.ang(cv, x) for x in fcorn + [fc]), scase)
            fcs = sorted(i for i in idx if isinstance(i, int))
            if idx.count('c') != 1 or len(fcs) != 2 or (fcs[1] - fcs[0]) % 5 not in (1, 4):
                ctx.fail('segment_not_nested', scase, corners=idx)
                continue
            pairs.add(tuple(fcs))
            # outer edge vertex for vertex: every vertex of the segment ring not on the two radial edges is a face ring vertex
            outer = [v for v in sring if min(geo.ang(v, x) for x in fring) <= 1e-9]
            if len(outer) < k + 1:
                ctx.fail('segment_outer_edge_differs', scase, matched=len(outer), want=k + 1)
            tot += geo.laea_area([geo.ll_to_vec(*q) for q in a5.cell_to_boundary(s, {'segments': 256, 'closed_ring': False})])
        if len(pairs) != 5:
            ctx.fail('segments_share_corner_pair', case, pairs=sorted(pairs))
        rel = abs(tot / farea - 1)
        ctx.maxi('segment_area_sum_rel_err', rel, case)
        if rel > 1e-6:
            ctx.fail('segment_areas_do_not_sum', case, rel=rel)
        # descendants of the face several levels down, obtained in ONE call: all must map back to the face, a sample must be near it
        for lv in ((3, 5, 6) if ctx.tier == 'quick' else (3, 5, 6, 7)):
            desc = a5.cell_to_children(f, lv)
            bad = [x for x in desc if a5.cell_to_parent(x, 0) != f]
            if bad or len(set(desc)) != 5 * 4 ** (lv - 1):
                ctx.fail('listed_descendant_has_another_ancestor', dict(case, level=lv), n_foreign=len(bad), n=len(desc), example=bad[:2])
            for x in [desc[ctx.rnd.randrange(len(desc))] for _ in range(40)] + desc[:3] + desc[-3:]:
                d = geo.ang(centre_vec(a5, geo, x), fc) / geo.width(0)
                ctx.case((f, x))
                ctx.maxi('descendant_drift_w', d, {'ancestor': f, 'descendant': x, 'r': 0, 'rd': lv})
                if d > 1.5:
                    ctx.fail('descendant_drift', {'ancestor': f, 'descendant': x, 'r': 0, 'rd': lv, 'cls': 'face_multi_level'}, drift_w=d)
        ctx.count('faces_nested')


def run_shard(spec, ctx):
    import a5
    from rv import geo, gen, probe
    probe.count_only([('a5.core.serialization', 'cell_to_children'), ('a5.core.serialization', 'cell_to_parent'), ('a5.core.cell', 'cell_to_lonlat')])
    rnd = ctx.rnd
    if spec['part'] == 'nesting':
        nesting(a5, geo, ctx)
        ctx.sample({'faces': 12, 'segments': 60})
    elif spec['part'] == 'paths':
        for n in range(spec['n']):
            r = rnd.randint(0, 28)
            face, seg = n % 12, (n // 12) % 5
            c = gen.cell_by_path(a5, face, None if r == 0 else seg, gen.digits_pattern(rnd, max(0, r - 1)))
            mode = rnd.random()
            if mode < 0.5:
                run_path(a5, geo, c, r, ctx, 'random', lambda k: rnd.randrange(k), jumps=True)
            elif mode < 0.75:
                fixed = rnd.randrange(4)
                run_path(a5, geo, c, r, ctx, 'constant_digit', lambda k: min(fixed, k - 1))
            else:
                pat = [rnd.randrange(4) for _ in range(2)]
                st = {'i': 0}

                def ch(k):
                    st['i'] += 1
                    return min(pat[st['i'] % 2], k - 1)
                run_path(a5, geo, c, r, ctx, 'alternating', ch)
        ctx.sample({'start': c, 'r': r})
    elif spec['part'] == 'families':
        # cells that share a long digit tail and differ only in their leading digit(s) (and the same tail in other segments),
        # evaluated back to back against their coarse ancestors
        for n in range(spec['n']):
            rr = rnd.choice((29, 29, 28, 28, rnd.randint(8, 27)))
            tail = gen.digits_pattern(rnd, rr - 2)
            fams = []
            for _ in range(2):
                face, seg = rnd.randrange(12), rnd.randrange(5)
                for d0 in range(4):
                    fams.append(gen.cell_by_path(a5, face, seg, [d0] + tail))
            for dcell in fams:
                dv = centre_vec(a5, geo, dcell)
                for ar in sorted({1, 2, 3, rnd.randint(3, max(3, rr - 1))}):
                    anc = a5.cell_to_parent(dcell, ar)
                    d = geo.ang(dv, centre_vec(a5, geo, anc)) / geo.width(ar)
                    ctx.case((anc, dcell))
                    ctx.maxi('descendant_drift_w', d, {'ancestor': anc, 'descendant': dcell, 'r': ar, 'rd': rr})
                    if d > 1.5:
                        ctx.fail('descendant_drift', {'ancestor': anc, 'descendant': dcell, 'r': ar, 'rd': rr, 'cls': 'family'}, drift_w=d)
            ctx.count('families')
        ctx.sample({'family_of': fams[0], 'r': rr})
    elif spec['part'] == 'beam':
        for n in range(spec['n']):
            r = rnd.randint(0, 28)
            c = gen.cell_by_path(a5, rnd.randrange(12), None if r == 0 else rnd.randrange(5), gen.digits_pattern(rnd, max(0, r - 1)))
            run_beam(a5, geo, c, r, ctx)
        ctx.sample({'beam_start': c, 'r': r})
    else:
        kinds = ['uniform', 'polar', 'frame', 'antimeridian', 'hug', 'edge', 'seam']
        from rv import branch
        bpts = branch.hostile_points(a5, rnd, 120, 100, 120)
        ctx.counters['branch_boundary_points'] = len(bpts)
        for i_ in range(min(3 * len(bpts), 500)):
            r_ = rnd.choice((29, 28, 27, 26, rnd.randint(1, 25)))
            eval_point(a5, geo, branch.near(rnd, bpts[i_ % len(bpts)][0], geo.width(r_)), r_, 'branch', ctx)
        for n in range(spec['n']):
            cls = kinds[n % len(kinds)]
            p, r = gen.point(rnd, a5, cls, rnd.choice((29, 28, 27)) if rnd.random() < 0.35 else rnd.randint(1, 29))
            eval_point(a5, geo, p, r, cls, ctx)
        ctx.sample({'lon': p[0], 'lat': p[1], 'r': r})


def finalize(m, tier):
    inc = []
    c = m['counters']
    if c.get('faces_nested', 0) != 12:
        inc.append('nesting clause incomplete')
    if c.get('paths_random', 0) < 1000 or c.get('beams', 0) < 40:
        inc.append('too few paths / beams')
    for k in ('points_polar', 'points_frame', 'points_uniform'):
        if c.get(k, 0) < 500:
            inc.append('class %s below floor' % k)
    return {'inconclusive': inc}


def replay(f, ctx):
    import a5
    from rv import geo
    c = f['case']
    if 'descendant' in c:
        check_pair(a5, geo, f, ctx)
    elif 'lon' in c:
        eval_point(a5, geo, (c['lon'], c['lat']), c['r'], c.get('cls', 'replay'), ctx)
    else:
        nesting(a5, geo, ctx)
