"""Shared workload for C08 / C09: exhaustive antichains of a bounded sub-hierarchy spanning every aperture,
permutations of small cases, random large sets. Each property evaluates its own post-condition."""
import itertools
import random


def antichains(a5, node, expand):
    """all antichains of the subtree at `node`; `expand` = set of nodes whose children are part of the sub-hierarchy"""
    if node not in expand:
        return [(), (node,)]
    kids = a5.cell_to_children(node)
    per = [antichains(a5, k, expand) for k in kids]
    out = [(node,)]
    for combo in itertools.product(*per):
        out.append(tuple(x for part in combo for x in part))
    return out


def sub_hierarchy(a5, seed):
    """faces A, B; a segment of A; one child of it - chosen by the seed. returns dict with antichain lists"""
    rnd = random.Random('subh/%s' % seed)
    faces = a5.cell_to_children(0, 0)
    ia, ib = rnd.sample(range(12), 2)
    A, B = faces[ia], faces[ib]
    seg = a5.cell_to_children(A)[rnd.randrange(5)]
    x = a5.cell_to_children(seg)[rnd.randrange(4)]
    acA = antichains(a5, A, {A, seg, x})
    acB = antichains(a5, B, {B})
    others = [f for i, f in enumerate(faces) if i not in (ia, ib)]
    rnd.shuffle(others)
    return {'A': A, 'B': B, 'seg': seg, 'x': x, 'acA': acA, 'acB': acB, 'others': others, 'faces': faces}


def other_configs_quick(others):
    cfgs = [tuple(others), ()]
    for i in range(len(others)):
        cfgs.append(tuple(o for j, o in enumerate(others) if j != i))
    return cfgs


def other_configs_thorough(others):
    free, block = others[:7], others[7:]
    cfgs = []
    for mask in range(1 << 7):
        base = tuple(o for j, o in enumerate(free) if mask >> j & 1)
        cfgs.append(base)
        cfgs.append(base + tuple(block))
    return cfgs


def presentations(rnd, X, tree, allow_overlap):
    """the antichain X as an argument list: shuffled, with duplicates, optionally polluted with ancestors/descendants"""
    L = list(X)
    k = rnd.random()
    if k < 0.5 and L:
        L += [rnd.choice(L) for _ in range(rnd.randint(1, 3))]
    if allow_overlap and L and rnd.random() < 0.34:
        c = rnd.choice(L)
        k = rnd.random()
        if k < 0.4:
            # an ancestor at a random level, the world cell included
            path = tree.path(c)
            if len(path) > 1:
                L.append(path[rnd.randrange(1, len(path))])
        elif k < 0.7 and tree.res(c) < 4:
            ch = tree.a5.cell_to_children(c)
            L += rnd.sample(ch, rnd.randint(1, len(ch)))
        else:
            # a descendant up to two levels down (never below resolution 29)
            d = c
            for _ in range(min(2, 29 - tree.res(c))):
                d = rnd.choice(tree.a5.cell_to_children(d))
            if d != c:
                L.append(d)
    k = rnd.random()
    if k < 0.08:
        L.sort()          # callers often pass sorted lists
    elif k < 0.12:
        L.sort(reverse=True)
    else:
        rnd.shuffle(L)
    return L


def spine(rnd, a5, root, root_res, depth, complete):
    """the complete partition of `root` refined along one random path for `depth` levels (one cell per level is replaced by
    its children); canonical form = [root]. With complete=False one random leaf is removed (or replaced by part of its children),
    so nothing above that leaf may merge."""
    out = []
    cur, r = root, root_res
    for _ in range(depth):
        if r >= 29:
            break
        kids = a5.cell_to_children(cur)
        i = rnd.randrange(len(kids))
        out.extend(k for j, k in enumerate(kids) if j != i)
        cur, r = kids[i], r + 1
    out.append(cur)
    if not complete and len(out) > 1:
        j = rnd.randrange(len(out))
        victim = out.pop(j)
        if rnd.random() < 0.5 and a5.get_resolution(victim) < 29:
            vk = a5.cell_to_children(victim)
            out.extend(rnd.sample(vk, rnd.randint(1, len(vk) - 1)))
    return out


def spine_case(rnd, a5, gen):
    mode = rnd.random()
    if mode < 0.35:
        root, rr = 0, -1
        depth = rnd.choice((30, 30, 29, rnd.randint(2, 30)))
    else:
        rr = rnd.randint(0, 27)
        root = gen.random_cell(rnd, a5, rr)
        depth = rnd.randint(2, 29 - rr)
    return spine(rnd, a5, root, rr, depth, rnd.random() < 0.6), root


def covered_twice(rnd, a5, gen):
    """a set of sibling cells (k of the 12 faces, k of the 5 segments of a face, k of the 4 children of a cell) in which some
    members are ALSO given through the complete set of their descendants one or two levels down (not an antichain): the covered
    region is exactly the k siblings - nothing may be added for the absent ones"""
    mode = rnd.random()
    if mode < 0.5:
        sibs = a5.cell_to_children(0, 0)
    elif mode < 0.75:
        sibs = a5.cell_to_children(rnd.choice(a5.cell_to_children(0, 0)))
    else:
        sibs = a5.cell_to_children(gen.random_cell(rnd, a5, rnd.randint(1, 27)))
    k = rnd.choice((len(sibs), len(sibs) - 1, len(sibs) - 1, len(sibs) - 2))
    present = rnd.sample(sibs, max(1, k))
    out = list(present)
    r0 = a5.get_resolution(present[0])
    for c in rnd.sample(present, rnd.randint(1, min(3, len(present)))):
        out.extend(a5.cell_to_children(c, min(29, r0 + rnd.randint(1, 2))))
        if rnd.random() < 0.3:
            out.remove(c)
    rnd.shuffle(out)
    return out


def small_mixed(rnd, a5, gen):
    """a short antichain: one to three resolution-0 cells (every face in turn) plus one or two COMPLETE sibling groups elsewhere
    (the five segments of another face, four siblings at a random depth, a two-level cascade) and a few loose cells"""
    faces = a5.cell_to_children(0, 0)
    idx = list(range(12))
    rnd.shuffle(idx)
    nf = rnd.randint(1, 3)
    out = [faces[i] for i in idx[:nf]]
    rest = idx[nf:]
    for g in range(rnd.randint(1, 2)):
        f = faces[rest[g]]
        m = rnd.random()
        if m < 0.4:
            out.extend(a5.cell_to_children(f))
        elif m < 0.7:
            segs = a5.cell_to_children(f)
            deep = gen.cell_by_path(a5, rest[g], rnd.randrange(5), gen.digits_pattern(rnd, rnd.randint(0, 26)))
            out.extend(a5.cell_to_children(deep))
        else:
            segs = a5.cell_to_children(f)
            k = rnd.randrange(5)
            out.extend(s for j, s in enumerate(segs) if j != k)
            out.extend(a5.cell_to_children(segs[k]))      # cascade: 4 children -> segment -> 5 segments -> face
    for _ in range(rnd.randint(0, 2)):
        f2 = rest[rnd.randint(3, len(rest) - 1)]
        out.append(gen.cell_by_path(a5, f2, rnd.randrange(5), gen.digits_pattern(rnd, rnd.randint(0, 20))))
    return out


def head_cascade(rnd, a5, gen):
    """the numerically first cell Q of the list is given as [children of its first child] + [its other children] (two passes must
    merge it), followed by a dozen or more cells that sort after it, among them another complete sibling group that merges in the
    first pass; canonical form = [Q] + the loose cells + that group's parent"""
    face = rnd.randrange(0, 8)
    rq = rnd.randint(1, 26)
    Q = gen.cell_by_path(a5, face, rnd.randrange(5), gen.digits_pattern(rnd, rq - 1))
    kids = a5.cell_to_children(Q)
    depth = rnd.randint(1, 2)
    head = kids[0]
    out = []
    for _ in range(depth):
        hk = a5.cell_to_children(head)
        out.extend(hk[1:])
        head = hk[0]
    out.append(head)
    out.extend(kids[1:])
    later_faces = list(range(face + 1, 12))
    for _ in range(rnd.randint(10, 16)):
        out.append(gen.cell_by_path(a5, rnd.choice(later_faces), rnd.randrange(5), gen.digits_pattern(rnd, rnd.randint(0, 20))))
    g = gen.cell_by_path(a5, rnd.choice(later_faces), rnd.randrange(5), gen.digits_pattern(rnd, rnd.randint(0, 24)))
    out.extend(a5.cell_to_children(g))
    return out


def random_large(rnd, a5, gen, size_lo=300, size_hi=3000):
    """a big mixed-resolution set with many complete and almost complete sibling groups"""
    out = []
    target = rnd.randint(size_lo, size_hi)
    while len(out) < target:
        r = rnd.randint(-1, 27) if rnd.random() < 0.9 else rnd.randint(26, 28)
        root = 0 if r == -1 else gen.random_cell(rnd, a5, r)
        depth = rnd.randint(1, 3) if r >= 1 else rnd.randint(1, 2)
        kids = a5.cell_to_children(root, min(29, r + depth))
        mode = rnd.random()
        if mode < 0.35:
            out.extend(kids)  # complete: must merge all the way
        elif mode < 0.7:
            drop = rnd.randrange(len(kids))
            out.extend(k for i, k in enumerate(kids) if i != drop)
        else:
            out.extend(k for k in kids if rnd.random() < 0.6)
        if rnd.random() < 0.2:
            out.append(root)  # overlapping ancestor (C08 only; C09 takes the antichain of it)
    rnd.shuffle(out)
    return out


def small_perm_cases(a5, rnd, gen):
    """<=6-cell cases whose every order is tried"""
    faces = a5.cell_to_children(0, 0)
    f = rnd.randrange(12)
    segs = a5.cell_to_children(faces[f])
    g = faces[(f + 1 + rnd.randrange(11)) % 12]
    c2 = gen.random_cell(rnd, a5, rnd.randint(1, 28))
    kids = a5.cell_to_children(c2)
    return [segs + [g], kids + [g, segs[0]], kids[:3] + [g] + segs[:2], segs[:4] + [segs[4], faces[(f + 5) % 12]],
            kids + a5.cell_to_children(segs[1])[:2]]
