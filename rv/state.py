"""Shared-state inventory of the loaded a5 modules: fingerprints (write footprints) and in-place state rewind."""
import copy
import sys
import types

_ATOM = (int, float, str, bytes, bool, type(None), types.FunctionType, types.ModuleType, type, types.BuiltinFunctionType)


def containers(maxdepth=5):
    """[(path, object)] for every list / dict / instance __dict__ reachable from a5.* module globals"""
    out = []
    seen = set()

    def walk(obj, path, depth):
        if depth > maxdepth or id(obj) in seen or isinstance(obj, _ATOM):
            return
        seen.add(id(obj))
        if isinstance(obj, list):
            out.append((path, obj))
            for i, x in enumerate(obj[:500]):
                walk(x, '%s[%d]' % (path, i), depth + 1)
        elif isinstance(obj, dict):
            out.append((path, obj))
            for k, x in list(obj.items())[:500]:
                walk(x, '%s[%.30r]' % (path, k), depth + 1)
        elif isinstance(obj, (tuple, set, frozenset)):
            for i, x in enumerate(list(obj)[:500]):
                walk(x, '%s<%d>' % (path, i), depth + 1)
        elif hasattr(obj, '__dict__'):
            out.append((path + '.__dict__', vars(obj)))
            for k, x in list(vars(obj).items()):
                walk(x, '%s.%s' % (path, k), depth + 1)
    for name, m in sorted(sys.modules.items()):
        if m is not None and (name == 'a5' or name.startswith('a5.')):
            for k, v in list(vars(m).items()):
                if k.startswith('__') or isinstance(v, (types.FunctionType, type)):
                    continue
                walk(v, '%s:%s' % (name, k), 0)
    return out


def fingerprint(conts=None):
    conts = conts or containers()
    fp = {}
    for path, o in conts:
        try:
            if isinstance(o, list):
                fp[path] = ('list', len(o), repr(o) if len(o) < 64 else hash(repr(o)))
            else:
                fp[path] = ('dict', len(o), hash(repr(sorted(map(repr, o.keys())))), repr({k: v for k, v in o.items() if isinstance(v, (int, float, str, bool))}))
        except Exception as e:  # pragma: no cover
            fp[path] = ('unreadable', repr(e))
    return fp


def diff(a, b):
    return sorted(k for k in set(a) | set(b) if a.get(k) != b.get(k))


class Rewinder:
    """keeps the contents of every container as of construction time and restores them in place"""

    def __init__(self):
        self.snap = [(p, o, copy.copy(o)) for p, o in containers()]

    def rewind(self, rnd=None, frac=1.0):
        n = 0
        for p, o, c in self.snap:
            if rnd is None or rnd.random() < frac:
                if isinstance(o, list):
                    o[:] = c
                else:
                    o.clear()
                    o.update(c)
                n += 1
        return n
