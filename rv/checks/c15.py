"""C15 - geodetic <-> authalic latitude conversion is accurate and invertible."""
import math

ID = 'C15'
NEEDS_GEO_SELFTEST = True
LEDGER_FILES = ['a5/projections/authalic.py', 'a5/core/coordinate_transforms.py']
MUST_ENTER = [('a5/projections/authalic.py', 'forward'), ('a5/projections/authalic.py', 'inverse'),
              ('a5/projections/authalic.py', '_apply_coefficients'), ('a5/core/coordinate_transforms.py', 'from_lonlat'),
              ('a5/core/coordinate_transforms.py', 'to_lonlat')]
RULE = ('latitudes phi: uniform grid over [-pi/2, pi/2] (1e5 quick / 2e6 thorough points), log-spaced approaches 1e-16..1 to 0 and to '
        '+-pi/2, exact 0 and +-pi/2, neighbouring doubles. Per phi: |forward - closed form| <= 1e-10, oddness, '
        '|inverse(forward)-phi| <= 1e-12, |inverse - exact inverse (bisection of the closed form)| <= 2e-10 with inverse(phi) called directly after forward(phi), forward repeated, strict increase between grid neighbours (spacing >= 1e-9 relative), no decrease between '
        'adjacent doubles beyond 4 ulp; same through from_lonlat / to_lonlat in degrees; a second conversion of another latitude completed inside every LINE event of a conversion (own instance and the module-level one), results compared bit for bit with the solo call. Reference = exact WGS84 closed form in a '
        'pole-stable arrangement, re-validated against 50-digit mpmath at the start of the run. distinct = distinct phi; non-trivial = phi != 0, +-pi/2')
ASSUMPTIONS = ['WGS84 ellipsoid (f = 1/298.257223563)', 'closed form relative error <= 1e-13 vs mpmath (self-test)']


def plan(tier, seed):
    n = 100000 if tier == 'quick' else 2000000
    specs = [{'part': 'grid', 'i0': i * n // 14, 'i1': (i + 1) * n // 14, 'n': n} for i in range(14)]
    specs.append({'part': 'log'})
    specs.append({'part': 'lonlat', 'n': 20000 if tier == 'quick' else 300000})
    specs.append({'part': 'interleave', 'n': 60 if tier == 'quick' else 1500})
    return specs


def check_phi(A, geo, phi, ctx, full=True):
    case = {'phi': phi}
    ctx.case(phi, nontrivial=(phi != 0 and abs(phi) != math.pi / 2))
    try:
        f = A.forward(phi)
        g = A.inverse(f)
        fm = A.forward(-phi)
    except Exception as e:
        ctx.fail('raises', case, exc=repr(e))
        return None
    ref = geo.auth_lat(phi)
    err = abs(f - ref)
    ctx.maxi('forward_abs_err_rad', err, case)
    if err > 1e-10:
        ctx.fail('forward_inaccurate', case, got=f, want=ref, err=err)
    rt = abs(g - phi)
    ctx.maxi('roundtrip_abs_err_rad', rt, case)
    if rt > 1e-12:
        ctx.fail('roundtrip', case, back=g, err=rt)
    if abs(fm + f) > 4 * math.ulp(max(abs(f), 1e-300)):
        ctx.fail('not_odd', case, f=f, f_neg=fm)
    # the inverse direction on the same argument, directly after the forward call (and forward again after it): each must be
    # accurate on its own (implied by forward accuracy 1e-10 + round trip 1e-12), whatever was computed just before
    try:
        gi = A.inverse(phi)
        f2 = A.forward(phi)
    except Exception as e:
        ctx.fail('raises', case, exc=repr(e))
        return f
    sgn = 1.0 if phi >= 0 else -1.0
    inv_ref = sgn * (math.pi / 2 - geo.geo_colat_from_auth(math.pi / 2 - abs(phi)))
    ierr = abs(gi - inv_ref)
    ctx.maxi('inverse_abs_err_rad', ierr, case)
    if ierr > 2e-10:
        ctx.fail('inverse_inaccurate', case, got=gi, want=inv_ref, err=ierr)
    if f2 != f:
        ctx.fail('forward_depends_on_previous_call', case, first=f, again=f2)
    if full:
        nx = math.nextafter(phi, math.inf)
        if nx <= math.pi / 2:
            fn = A.forward(nx)
            ctx.count('adjacent_double_pairs')
            if fn < f - 4 * math.ulp(max(abs(f), 1e-300)):
                ctx.fail('decreasing_adjacent_doubles', case, f=f, f_next=fn)
    return f


def check_ll(CT, geo, lon, lat, ctx):
    case = {'lon': lon, 'lat': lat}
    ctx.case((lon, lat))
    try:
        th, ph = CT.from_lonlat((lon, lat))
        lon2, lat2 = CT.to_lonlat((th, ph))
    except Exception as e:
        ctx.fail('lonlat_raises', case, exc=repr(e))
        return case
    beta = math.pi / 2 - ph
    err = abs(beta - geo.auth_lat(math.radians(lat)))
    ctx.maxi('from_lonlat_authalic_err_rad', err, case)
    if err > 1e-10:
        ctx.fail('from_lonlat_inaccurate', case, err=err)
    rt = abs(math.radians(lat2 - lat))
    ctx.maxi('lonlat_roundtrip_lat_err_rad', rt, case)
    if rt > 1e-12 + 4e-16:
        ctx.fail('lonlat_roundtrip', case, back=[lon2, lat2], err=rt)
    dl = abs(((lon2 - lon) + 180) % 360 - 180)
    if math.radians(dl) > 1e-12:
        ctx.fail('lonlat_roundtrip_lon', case, back=[lon2, lat2])
    return case


def run_shard(spec, ctx):
    from a5.projections.authalic import AuthalicProjection
    import a5.core.coordinate_transforms as CT
    from rv import geo, probe
    probe.count_only([('a5.projections.authalic', 'AuthalicProjection.forward'), ('a5.projections.authalic', 'AuthalicProjection.inverse'),
                      ('a5.core.coordinate_transforms', 'from_lonlat'), ('a5.core.coordinate_transforms', 'to_lonlat')])
    A = AuthalicProjection()
    if spec['part'] == 'interleave':
        # two callers on the same converter (an instance of their own, and the module-level one behind from_lonlat / to_lonlat):
        # a second conversion of another latitude completed inside every LINE event of a first one (sys.monitoring injector).
        # Every conversion must return, bit for bit, what it returns alone, and so must the next one.
        import os
        import a5
        from rv import sched
        inj = sched.Injector(os.path.dirname(os.path.realpath(a5.__file__)))
        sites = set()
        for _ in range(spec['n']):
            x = ctx.rnd.uniform(-math.pi / 2, math.pi / 2)
            y = ctx.rnd.choice((ctx.rnd.uniform(-math.pi / 2, math.pi / 2), -x, x, math.pi / 2 - 10 ** ctx.rnd.uniform(-12, -1), 0.0))
            lon = ctx.rnd.uniform(-180, 180)
            fns = {'forward': (lambda: A.forward(x)), 'inverse': (lambda: A.inverse(x)),
                   'from_lonlat': (lambda: tuple(CT.from_lonlat((lon, math.degrees(x))))),
                   'to_lonlat': (lambda: tuple(CT.to_lonlat((math.radians(lon) % (2 * math.pi), math.pi / 2 - x))))}
            Bs = [lambda: A.forward(y), lambda: A.inverse(y), lambda: tuple(CT.from_lonlat((lon / 2, math.degrees(y)))),
                  lambda: tuple(CT.to_lonlat((1.0, math.pi / 2 - y)))]
            for name, F in fns.items():
                want = F()
                B = ctx.rnd.choice(Bs)
                wantB = B()
                for k in range(1, inj.events_in(F, 'line') + 1):
                    st, res = inj.run(F, B, k, 'line')
                    ctx.case(('interleave', name, x, y, k))
                    ctx.count('conversion_interleavings')
                    if inj.where:
                        sites.add(inj.where[:2])
                    case = {'fn': name, 'x': x, 'y': y, 'lon': lon, 'k': k, 'at': list(inj.where) if inj.where else None}
                    if st != 'ok' or res != want or inj.bexc is not None or (inj.where is not None and inj.bres != wantB):
                        ctx.fail('wrong_when_interleaved', case, got=repr(res), want=repr(want), other=repr(inj.bexc or inj.bres), other_want=repr(wantB))
                    elif F() != want:
                        ctx.fail('wrong_after_interleaving', case)
        inj.close()
        ctx.sample({'interleaving_sites': sorted('%s:%s' % s_ for s_ in sites)})
        return
    if spec['part'] == 'grid':
        n = spec['n']
        prev = None
        for i in range(max(0, spec['i0'] - 1), spec['i1'] + 1):
            phi = -math.pi / 2 + math.pi * i / n if i < n else math.pi / 2
            phi += 0.0 if i in (0, n) else (ctx.rnd.random() - 0.5) * 0.2 * math.pi / n  # jitter so that seeds differ
            phi = max(-math.pi / 2, min(math.pi / 2, phi))
            f = check_phi(A, geo, phi, ctx, full=(i % 16 == 0))
            if f is not None and prev is not None and not (f > prev[1]) and phi > prev[0]:
                ctx.fail('not_strictly_increasing', {'phi': phi}, prev_phi=prev[0], f=f, f_prev=prev[1])
            prev = (phi, f) if f is not None else None
        ctx.count('grid_points', spec['i1'] - spec['i0'])
        ctx.sample({'phi': phi, 'forward': f, 'closed_form': geo.auth_lat(phi)})
    elif spec['part'] == 'log':
        for base, sgn in ((0.0, 1), (0.0, -1), (math.pi / 2, -1), (-math.pi / 2, 1)):
            prev = None
            seq = [base + sgn * 10 ** (e / 40.0) for e in range(-640, 1)]
            seq = [p for p in seq if -math.pi / 2 <= p <= math.pi / 2]
            seq.sort()
            for phi in seq:
                f = check_phi(A, geo, phi, ctx)
                if f is not None and prev is not None and phi > prev[0] * (1 + 1e-9) + 0 and phi - prev[0] > 1e-9 * abs(phi) and not (f > prev[1]):
                    # equal inputs (absorbed steps next to +-pi/2) are skipped by the phi > prev test
                    ctx.fail('not_strictly_increasing', {'phi': phi}, prev_phi=prev[0], f=f, f_prev=prev[1])
                prev = (phi, f) if f is not None else None
                ctx.count('log_points')
        for phi, want in ((0.0, 0.0), (math.pi / 2, math.pi / 2), (-math.pi / 2, -math.pi / 2)):
            ctx.case(('fixed', phi), nontrivial=False)
            f = A.forward(phi)
            if f != want:
                ctx.fail('fixed_point', {'phi': phi}, got=f)
            g = A.inverse(phi)
            if abs(g - want) > 1e-15:
                ctx.fail('fixed_point_inverse', {'phi': phi}, got=g)
        ctx.sample({'phi': 1e-12, 'forward': A.forward(1e-12), 'closed_form': geo.auth_lat(1e-12)})
    else:
        for _ in range(spec['n']):
            k = ctx.rnd.random()
            if k < 0.02:
                lat = ctx.rnd.choice((90.0, -90.0, 0.0, -0.0))
            elif k < 0.5:
                lat = ctx.rnd.uniform(-90, 90)
            elif k < 0.8:
                lat = (90 - 10 ** ctx.rnd.uniform(-13, 1)) * ctx.rnd.choice((-1, 1))
            else:
                lat = 10 ** ctx.rnd.uniform(-16, 1) * ctx.rnd.choice((-1, 1))
            lon = ctx.rnd.uniform(-180, 180)
            case = check_ll(CT, geo, lon, lat, ctx)
        ctx.sample(case)


def finalize(m, tier):
    inc = []
    if m['counters'].get('conversion_interleavings', 0) < 1000:
        inc.append('fewer than 1000 interleaved conversions')
    return {'inconclusive': inc}


def replay(f, ctx):
    from a5.projections.authalic import AuthalicProjection
    from rv import geo
    c = f['case']
    if f['kind'] in ('wrong_when_interleaved', 'wrong_after_interleaving'):
        run_shard({'part': 'interleave', 'n': 30}, ctx)
        return
    if 'phi' in c:
        check_phi(AuthalicProjection(), geo, c['phi'], ctx)
        if f['kind'] == 'not_strictly_increasing':
            A = AuthalicProjection()
            if not A.forward(c['phi']) > A.forward(f['prev_phi']):
                ctx.fail('not_strictly_increasing', c, prev_phi=f['prev_phi'])
    else:
        import a5.core.coordinate_transforms as CT
        check_ll(CT, geo, c['lon'], c['lat'], ctx)
