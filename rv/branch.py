"""Branch-boundary generator: hostile points located ON the loci where the library's own projection code changes branch.

sys.monitoring (tool 2) records which lines of the projection / transform modules execute while one point goes through
forward and inverse projection. Two points with different line sets are separated by at least one internal branch boundary
(a triangle seam, a face edge, a small-angle cut-over, a snap threshold, ...); bisection on 'line L executed' along the great
circle between them finds a point on that boundary to ~1e-15 rad. Any discontinuity hidden behind a threshold lives on such a
locus, whatever the threshold is - the workload does not need to know it."""
import math
import os
import sys

from . import geo

mon = sys.monitoring
TOOL = 2
FILES = ('projections/polyhedral.py', 'projections/dodecahedron.py', 'projections/gnomonic.py', 'projections/authalic.py',
         'core/coordinate_transforms.py', 'core/origin.py', 'math/vec3.py', 'geometry/spherical_triangle.py',
         'geometry/spherical_polygon.py')


class BranchProbe:
    def __init__(self, a5):
        import a5.core.cell as cellmod
        from a5.core.coordinate_transforms import from_lonlat, to_lonlat
        from a5.core.origin import find_nearest_origin, origins, haversine
        self.origins, self.haversine = origins, haversine
        self.D = cellmod._dodecahedron
        self.from_lonlat, self.to_lonlat, self.nearest = from_lonlat, to_lonlat, find_nearest_origin
        root = os.path.dirname(os.path.realpath(a5.__file__))
        self.files = {os.path.join(root, f): f for f in FILES}
        self.cur = None
        mon.use_tool_id(TOOL, 'rv-branch')
        mon.register_callback(TOOL, mon.events.LINE, self._line)

    def close(self):
        mon.set_events(TOOL, 0)
        mon.register_callback(TOOL, mon.events.LINE, None)
        mon.free_tool_id(TOOL)

    def _line(self, code, lineno):
        f = self.files.get(code.co_filename)
        if f is None:
            return mon.DISABLE
        if self.cur is not None:
            self.cur.add((f, lineno))

    def _pipeline(self, ll):
        sph = self.from_lonlat(ll)
        o = self.nearest(sph)
        self.to_lonlat(self.D.inverse(self.D.forward(sph, o.id), o.id))
        # the same point expressed on the edge-adjacent (second nearest) face: the reflected / squashed triangle branches
        second = sorted(self.origins, key=lambda q: self.haversine(sph, q.axis))[1]
        self.to_lonlat(self.D.inverse(self.D.forward(sph, second.id), second.id))

    def sig(self, ll, warm=True):
        """set of (file, line) executed by forward + inverse projection of the point (and the lon/lat conversions)"""
        if warm:
            try:   # once unobserved, so that lazily filled caches are warm and only input-dependent branches remain
                self._pipeline(ll)
            except Exception:
                pass
        self.cur = set()
        mon.set_events(TOOL, mon.events.LINE)
        try:
            self._pipeline(ll)
        except Exception:
            self.cur.add(('raised', 0))
        finally:
            mon.set_events(TOOL, 0)
        s, self.cur = frozenset(self.cur), None
        return s

    def boundary_points(self, rnd, n_global, n_frame, n_arc, per_pair=2):
        """[( (lon, lat), (file, line) )] points on internal branch boundaries.
        global pairs: two random points; frame pairs: one frame point displaced by two log-uniform distances (1e-12..1e-1 rad)
        in one direction - straddles any radius threshold around that point; arc pairs: one point of a dodecahedron edge / seam
        displaced perpendicular by two log-uniform distances - straddles any band threshold along that arc"""
        from . import gen
        pairs = []
        for _ in range(n_global):
            a = geo.unit((rnd.gauss(0, 1), rnd.gauss(0, 1), rnd.gauss(0, 1)))
            b = geo.unit((rnd.gauss(0, 1), rnd.gauss(0, 1), rnd.gauss(0, 1)))
            if geo.dot(a, b) < -0.5:
                b = geo.unit(geo.add(geo.add(a, b), geo.scale(a, 0.5)))
            pairs.append((a, b))
        for _ in range(n_frame):
            f = gen.FRAME[rnd.randrange(62)][1]
            d = geo.unit((rnd.gauss(0, 1), rnd.gauss(0, 1), rnd.gauss(0, 1)))
            e1, e2 = 10 ** rnd.uniform(-12, -1), 10 ** rnd.uniform(-12, -1)
            pairs.append((geo.unit(geo.add(f, geo.scale(d, e1))), geo.unit(geo.add(f, geo.scale(d, e2)))))
        for _ in range(n_arc):
            a0, b0 = (gen.EDGES if rnd.random() < 0.5 else gen.SEAMS)[rnd.randrange(30)]
            t = rnd.random()
            m = geo.unit(geo.add(geo.scale(a0, 1 - t), geo.scale(b0, t)))
            nrm = geo.unit(geo.cross(a0, b0))
            sg = rnd.choice((-1, 1))
            e1, e2 = 10 ** rnd.uniform(-12, -1), 10 ** rnd.uniform(-12, -1)
            pairs.append((geo.unit(geo.add(m, geo.scale(nrm, sg * e1))), geo.unit(geo.add(m, geo.scale(nrm, sg * e2)))))
        out = []
        for a, b in pairs:
            sa, sb = self.sig(geo.vec_to_ll(a)), self.sig(geo.vec_to_ll(b))
            diff = sorted(sa ^ sb)
            rnd.shuffle(diff)
            for L in diff[:per_pair]:
                lo, hi = (a, b) if L in sa else (b, a)   # L executed at lo, not at hi
                for _step in range(44):
                    mid = geo.unit(geo.add(lo, hi))
                    if mid == lo or mid == hi:
                        break
                    if L in self.sig(geo.vec_to_ll(mid), warm=False):
                        lo = mid
                    else:
                        hi = mid
                out.append((geo.vec_to_ll(lo), L))
        return out


def hostile_points(a5, rnd, n_global=200, n_frame=150, n_arc=100):
    """one list per shard: [((lon, lat), 'file:line')] on internal branch boundaries of the tree under test"""
    bp = BranchProbe(a5)
    try:
        return [(ll, '%s:%d' % L) for ll, L in bp.boundary_points(rnd, n_global, n_frame, n_arc)]
    finally:
        bp.close()


def near(rnd, ll, scale):
    """the boundary point displaced by a log-small distance (relative to `scale` rad) in a random direction"""
    v = geo.ll_to_vec(*ll)
    d = geo.unit((rnd.gauss(0, 1), rnd.gauss(0, 1), rnd.gauss(0, 1)))
    return geo.vec_to_ll(geo.unit(geo.add(v, geo.scale(d, scale * 10 ** rnd.uniform(-4, 0.3)))))
