"""Deterministic preemption injector (sys.monitoring tool 3) and real-thread stressor.

inject(A, B, k): run A(); inside the callback of A's k-th LINE (or INSTRUCTION) event run B() to completion and
resume A. This is the schedule 'thread 1 preempted at that point, thread 2 runs B entirely, thread 1 resumes'
(context bound 2) reproduced on one thread; with the GIL a real preemption there is indistinguishable from it.
"""
import os
import sys
import threading
import time
import types

mon = sys.monitoring
TOOL = 3


class Injector:
    def __init__(self, a5dir):
        self.a5dir = a5dir
        self.count = 0
        self.target = -1
        self.inside = False
        self.B = None
        self.where = None
        self.bres = None
        self.bexc = None
        self.mode = 'line'
        self.codes = []
        self.sites = set()
        self.trace = None
        self.sigfn = None
        self.sigs = None
        mon.use_tool_id(TOOL, 'rv-sched')
        mon.register_callback(TOOL, mon.events.LINE, self._line)
        mon.register_callback(TOOL, mon.events.INSTRUCTION, self._instr)

    def close(self):
        mon.set_events(TOOL, 0)
        for c in self.codes:
            mon.set_local_events(TOOL, c, 0)
        mon.register_callback(TOOL, mon.events.LINE, None)
        mon.register_callback(TOOL, mon.events.INSTRUCTION, None)
        mon.free_tool_id(TOOL)

    def _fire(self, code, pos):
        self.inside = True
        self.where = (os.path.relpath(code.co_filename, self.a5dir), code.co_name, pos)
        self.sites.add(self.where)
        try:
            self.bres = self.B()
        except BaseException as e:  # B raising is an observation, never propagates into A
            self.bexc = e
        finally:
            self.inside = False

    def _line(self, code, lineno):
        if not code.co_filename.startswith(self.a5dir):
            return mon.DISABLE
        if self.inside:
            return
        self.count += 1
        if self.trace is not None:
            self.trace.append((code.co_filename, code.co_name, lineno))
        if self.sigfn is not None:
            self.sigs.append(self.sigfn())
        if self.count == self.target:
            self._fire(code, lineno)

    def _instr(self, code, offset):
        if self.inside:
            return
        self.count += 1
        if self.count == self.target:
            self._fire(code, offset)

    def set_instruction_targets(self, modules):
        """INSTRUCTION events are local to the code objects of the given modules"""
        self.codes = []
        for m in modules:
            for v in vars(m).values():
                self._collect(v, m.__name__)

    def _collect(self, obj, modname):
        if isinstance(obj, types.FunctionType) and obj.__module__ == modname:
            self.codes.append(obj.__code__)
            for c in obj.__code__.co_consts:
                if hasattr(c, 'co_code'):
                    self.codes.append(c)
        elif isinstance(obj, type) and obj.__module__ == modname:
            for v in vars(obj).values():
                self._collect(v, modname)

    def run(self, A, B, k, mode='line'):
        """returns ('ok', result) or ('exc', exception) for A; B's outcome in self.bres / self.bexc"""
        self.count = 0
        self.target = k
        self.B = B
        self.where = None
        self.bres = None
        self.bexc = None
        if mode == 'line':
            mon.set_events(TOOL, mon.events.LINE)
        else:
            for c in self.codes:
                mon.set_local_events(TOOL, c, mon.events.INSTRUCTION)
        try:
            return 'ok', A()
        except BaseException as e:
            return 'exc', e
        finally:
            if mode == 'line':
                mon.set_events(TOOL, 0)
            else:
                for c in self.codes:
                    mon.set_local_events(TOOL, c, 0)

    def trace_of(self, A):
        """list of (file, function, line) for every LINE event of A"""
        self.trace = []
        try:
            self.run(A, lambda: None, -1, 'line')
            return self.trace
        finally:
            self.trace = None

    def state_change_events(self, A, sigfn):
        """indices k (1-based) of the LINE events of A before which `sigfn()` (a cheap signature of some shared containers)
        changed, i.e. the statement executed just before event k wrote shared state"""
        self.sigfn, self.sigs = sigfn, []
        try:
            self.run(A, lambda: None, -1, 'line')
            sg = self.sigs
        finally:
            self.sigfn, self.sigs = None, None
        return [i + 1 for i in range(1, len(sg)) if sg[i] != sg[i - 1]]

    def events_in(self, A, mode='line'):
        self.run(A, lambda: None, -1, mode)
        return self.count


def canon(x):
    """bit-exact canonical encoding of an API result"""
    if isinstance(x, float):
        return x.hex()
    if isinstance(x, (list, tuple)):
        return [canon(v) for v in x]
    if isinstance(x, dict):
        return {k: canon(v) for k, v in sorted(x.items())}
    return x


def thread_stress(ops, expected, n_threads, seconds, seed, switch=1e-6, watchdog=None):
    """ops: list of zero-arg callables; expected: canonical results. Returns dict with counts and the first
    wrong results / exceptions. Wall-clock only bounds the run; a watchdog expiry is 'inconclusive'."""
    import random
    old = sys.getswitchinterval()
    sys.setswitchinterval(switch)
    stop_at = time.time() + seconds
    wrong, excs = [], []
    counts = [0] * n_threads
    barrier = threading.Barrier(n_threads)

    def worker(t):
        rnd = random.Random('%s/%s' % (seed, t))
        barrier.wait()
        n = 0
        while time.time() < stop_at:
            i = rnd.randrange(len(ops))
            try:
                r = canon(ops[i]())
                if r != expected[i]:
                    if len(wrong) < 20:
                        wrong.append({'op': i, 'thread': t, 'n': n})
            except BaseException as e:
                if len(excs) < 20:
                    excs.append({'op': i, 'thread': t, 'exc': repr(e)})
            n += 1
        counts[t] = n
    ts = [threading.Thread(target=worker, args=(t,), daemon=True) for t in range(n_threads)]
    t0 = time.time()
    for t in ts:
        t.start()
    hung = False
    for t in ts:
        t.join(timeout=(watchdog or seconds * 10 + 60))
        if t.is_alive():
            hung = True
    sys.setswitchinterval(old)
    return {'ops': sum(counts), 'per_thread': counts, 'wrong': wrong, 'exceptions': excs, 'hung': hung, 'wall': time.time() - t0}


class Handover:
    """Two REAL threads with a deterministic hand-over schedule (context bound 3, true interleaving):
    thread 1 runs A up to its k-th LINE event and stops there; thread 2 runs B up to its j-th LINE event and stops there;
    thread 1 resumes and finishes A; thread 2 resumes and finishes B. Both stops happen inside sys.monitoring callbacks
    (Event.wait releases the GIL), so the order of bytecodes is exactly A[0:k] B[0:j] A[k:] B[j:]."""

    def __init__(self, a5dir, tool=5):
        self.a5dir = a5dir
        self.tool = tool
        mon.use_tool_id(tool, 'rv-handover')
        mon.register_callback(tool, mon.events.LINE, self._line)
        self.reset(None, None, 0, 0)

    def close(self):
        mon.set_events(self.tool, 0)
        mon.register_callback(self.tool, mon.events.LINE, None)
        mon.free_tool_id(self.tool)

    def reset(self, A, B, k, j):
        self.A, self.B, self.k, self.j = A, B, k, j
        self.ta = self.tb = None
        self.ca = self.cb = 0
        self.a_go, self.b_go, self.b_resume = threading.Event(), threading.Event(), threading.Event()
        self.a_stopped_at = self.b_stopped_at = None
        self.timeouts = 0
        self.res = {}

    def _line(self, code, lineno):
        if not code.co_filename.startswith(self.a5dir):
            return mon.DISABLE
        tid = threading.get_ident()
        if tid == self.ta:
            self.ca += 1
            if self.ca == self.k:
                self.a_stopped_at = (os.path.relpath(code.co_filename, self.a5dir), code.co_name, lineno)
                self.b_go.set()
                if not self.a_go.wait(20):
                    self.timeouts += 1
        elif tid == self.tb:
            self.cb += 1
            if self.cb == self.j:
                self.b_stopped_at = (os.path.relpath(code.co_filename, self.a5dir), code.co_name, lineno)
                self.a_go.set()
                if not self.b_resume.wait(20):
                    self.timeouts += 1

    def _run_a(self):
        self.ta = threading.get_ident()
        try:
            self.res['A'] = ('ok', self.A())
        except BaseException as e:
            self.res['A'] = ('exc', e)
        finally:
            self.b_go.set()       # if A never reached event k, B simply runs afterwards
            self.b_resume.set()

    def _run_b(self):
        self.tb = threading.get_ident()
        if not self.b_go.wait(20):
            self.timeouts += 1
        try:
            self.res['B'] = ('ok', self.B())
        except BaseException as e:
            self.res['B'] = ('exc', e)
        finally:
            self.a_go.set()       # if B finished before its j-th event, let A continue

    def run(self, A, B, k, j):
        self.reset(A, B, k, j)
        mon.set_events(self.tool, mon.events.LINE)
        try:
            t1 = threading.Thread(target=self._run_a, daemon=True)
            t2 = threading.Thread(target=self._run_b, daemon=True)
            t2.start()
            t1.start()
            t1.join(60)
            t2.join(60)
            hung = t1.is_alive() or t2.is_alive()
        finally:
            mon.set_events(self.tool, 0)
        return self.res.get('A'), self.res.get('B'), hung or self.timeouts > 0
