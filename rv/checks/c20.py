"""C20 - cell-count and area metadata agree with the actual hierarchy."""
import math

ID = 'C20'
LEDGER_FILES = ['a5/core/cell_info.py', 'a5/core/serialization.py']
MUST_ENTER = [('a5/core/cell_info.py', 'get_num_cells'), ('a5/core/cell_info.py', 'get_num_children'),
              ('a5/core/cell_info.py', 'cell_area'), ('a5/core/serialization.py', 'cell_to_children')]
RULE = ('complete enumeration of the finite metadata domain: r in -1..30 for counts/areas, all 496 ordered pairs '
        '-1<=p<=c<=29 for get_num_children (observed list lengths for c<=p+6 on first/last/random parent cells, own closed '
        'form N(c)/N(p) beyond), get_num_cells(r) vs the number of distinct ids obtained by expanding the world cell '
        '(r<=6 quick, 8 thorough) and vs the sum of children counts over every coarser level (r<=5|6); a ladder of large fan-outs (face -> 9..11, cells -> +10 levels); the rule as used to size outputs: len(uncompact(list, t)) for '
        'mixed-resolution lists with re-appearing resolutions, the hierarchy re-queried afterwards; every metadata call overtaken by another one at each of its LINE / INSTRUCTION events from the just-imported state, the whole table read again afterwards. '
        'distinct = distinct (kind, r or pair, cell); non-trivial = pairs with p<c and every enumerated level')
ASSUMPTIONS = ['authalic radius 6371007.2 m defines the sphere area', 'own closed form N(0)=12, N(r)=60*4^(r-1)']
R_AUTH = 6371007.2


def N(r):
    return 12 if r == 0 else 60 * 4 ** (r - 1)


def plan(tier, seed):
    top = 6 if tier == 'quick' else 8
    specs = [{'part': 'meta'}]
    for r in range(0, top + 1):
        specs.append({'part': 'enum', 'r': r, 'sumtop': 5 if tier == 'quick' else 6})
    ladder = [(0, 9), (2, 12), (12, 22)] if tier == 'quick' else [(-1, 9), (0, 9), (0, 10), (0, 11), (1, 11), (2, 12), (3, 14), (12, 22), (18, 29)]
    for p, c in ladder:
        specs.append({'part': 'ladder', 'p': p, 'c': c})
    specs.append({'part': 'sizing', 'n': 3000 if tier == 'quick' else 60000})
    specs.append({'part': 'big_sizing', 'n': 2 if tier == 'quick' else 8})
    specs.append({'part': 'interleave', 'mode': 'line'})
    specs.append({'part': 'interleave', 'mode': 'instruction'})
    return specs


def run_shard(spec, ctx):
    import a5
    from a5.core.cell_info import get_num_children
    from rv import gen, probe
    if spec['part'] != 'interleave':  # (the instruction-level injector needs the functions' own code objects, not counting wrappers)
        probe.count_only([('a5.core.cell_info', 'get_num_cells'), ('a5.core.cell_info', 'get_num_children'),
                          ('a5.core.cell_info', 'cell_area'), ('a5.core.serialization', 'cell_to_children')])
    from a5.core.cell_info import get_num_children  # rebound wrapper
    if spec['part'] == 'interleave':
        # the metadata as seen by two callers at once, from the state the package has right after import: a second metadata call
        # run to completion inside every LINE / INSTRUCTION event of a first one (sys.monitoring injector), then the whole table
        # read again. Nothing here may depend on who asked first or on a call being overtaken by another.
        import os
        import sys
        from rv import sched, state
        rew = state.Rewinder()
        sphere = 4 * math.pi * R_AUTH * R_AUTH
        face = a5.cell_to_children(0, 0)[7]
        rew2 = state.Rewinder()  # (the line above is a hierarchy call, not a metadata call; both snapshots are restored)
        ops = []
        for r in (0, 1, 2, 3, 6, 11, 30):
            ops.append(('get_num_cells(%d)' % r, (lambda r=r: a5.get_num_cells(r)), (lambda v, r=r: v == N(r))))
        for r in (0, 2, 5, 30):
            ops.append(('cell_area(%d)' % r, (lambda r=r: a5.cell_area(r)), (lambda v, r=r: abs(v * N(r) / sphere - 1) <= 4e-16)))
        for p_, c_ in ((-1, 3), (0, 4), (1, 1), (2, 9), (5, 29)):
            ops.append(('get_num_children(%d,%d)' % (p_, c_), (lambda p_=p_, c_=c_: get_num_children(p_, c_)),
                        (lambda v, p_=p_, c_=c_: v == (1 if p_ == c_ else (N(c_) // N(p_) if p_ >= 0 else N(c_))))))
        ops.append(('len(uncompact([face], 3))', (lambda: len(a5.uncompact([face], 3))), (lambda v: v == 80)))
        ops.append(('len(cell_to_children(face, 2))', (lambda: len(a5.cell_to_children(face, 2))), (lambda v: v == 20)))
        inj = sched.Injector(os.path.dirname(os.path.realpath(a5.__file__)))
        mode = 'line' if spec['mode'] == 'line' else 'instr'
        if mode == 'instr':
            inj.set_instruction_targets([sys.modules['a5.core.cell_info']])
        sites = set()
        for an, A, okA in ops[:-2]:   # the two hierarchy calls only overtake; their own lines are C06 / C10 material
            for bn, B, okB in ops:
                rew.rewind()
                rew2.rewind()
                n_ev = inj.events_in(A, mode)
                for k in range(1, n_ev + 1):
                    rew.rewind()
                    rew2.rewind()
                    st, res = inj.run(A, B, k, mode)
                    case = {'first': an, 'second': bn, 'k': k, 'mode': spec['mode'], 'at': list(inj.where) if inj.where else None}
                    ctx.case(('interleave', spec['mode'], an, bn, k))
                    ctx.count('metadata_interleavings_%s' % spec['mode'])
                    if inj.where:
                        sites.add(inj.where[:2])
                    if st != 'ok' or not okA(res):
                        ctx.fail('metadata_wrong_when_overtaken', case, got=repr(res)[:120])
                    elif inj.where is not None and (inj.bexc is not None or not okB(inj.bres)):
                        ctx.fail('metadata_wrong_when_overtaking', case, got=repr(inj.bexc or inj.bres)[:120])
                    else:
                        try:
                            tab = [a5.get_num_cells(r) for r in range(0, 31)]
                            ar = [a5.cell_area(r) for r in range(0, 31)]
                            if tab != [N(r) for r in range(0, 31)] or any(not (ar[i + 1] < ar[i]) for i in range(30)) or \
                                    get_num_children(0, 3) != 80 or len(a5.cell_to_children(face, 2)) != 20:
                                ctx.fail('metadata_wrong_after_overtaken_call', case, table=tab[:6])
                        except Exception as e:
                            ctx.fail('metadata_raises_after_overtaken_call', case, exc=repr(e))
        inj.close()
        ctx.count('metadata_interleaving_sites', len(sites))
        ctx.sample({'interleaving_sites': sorted('%s:%s' % s_ for s_ in sites)[:12]})
        return
    if spec['part'] == 'meta':
        sphere = 4 * math.pi * R_AUTH * R_AUTH
        prev = None
        for r in range(0, 31):
            ctx.case(('meta', r))
            try:
                n, a = a5.get_num_cells(r), a5.cell_area(r)
            except Exception as e:
                ctx.fail('meta_raises', {'r': r}, exc=repr(e))
                continue
            if n != N(r):
                ctx.fail('num_cells_formula', {'r': r}, got=n, want=N(r))
            rel = abs(a * n / sphere - 1)
            ctx.maxi('area_times_count_rel_err', rel, {'r': r})
            if rel > 4e-16:
                ctx.fail('area_times_count', {'r': r}, rel=rel)
            if prev is not None and not (a < prev):
                ctx.fail('area_not_decreasing', {'r': r}, area=a, prev=prev)
            prev = a
        for p in range(-1, 30):
            for c in range(p, 30):
                ctx.case(('pair', p, c), nontrivial=p < c)
                want = 1 if p == c else ((N(c) // N(p)) if p >= 0 else N(c))
                try:
                    got = get_num_children(p, c)
                except Exception as e:
                    ctx.fail('num_children_raises', {'p': p, 'c': c}, exc=repr(e))
                    continue
                if got != want:
                    ctx.fail('num_children_formula', {'p': p, 'c': c}, got=got, want=want)
                if c <= p + 6:
                    cells = [0] if p == -1 else [gen.cell_by_path(a5, 0, None if p == 0 else 0, [0] * max(0, p - 1)),
                                                  gen.cell_by_path(a5, 11, None if p == 0 else 4, [3] * max(0, p - 1)),
                                                  gen.random_cell(ctx.rnd, a5, p)]
                    for x in cells:
                        ln = len(a5.cell_to_children(x, c))
                        ctx.count('pairs_observed_lengths')
                        if ln != got:
                            ctx.fail('num_children_vs_len', {'p': p, 'c': c, 'cell': x}, got=got, length=ln)
        ctx.sample({'pair': [1, 4], 'get_num_children': get_num_children(1, 4)})
    elif spec['part'] == 'ladder':
        p, c = spec['p'], spec['c']
        x = 0 if p == -1 else gen.random_cell(ctx.rnd, a5, p)
        ctx.case(('ladder', p, c))
        ids = a5.cell_to_children(x, c)
        want = get_num_children(p, c)
        ctx.count('ladder_ids', len(ids))
        if len(ids) != want or len(set(ids)) != want or want != (N(c) // N(p) if p >= 0 else N(c)):
            ctx.fail('num_children_vs_len', {'p': p, 'c': c, 'cell': x}, got=want, length=len(ids), distinct=len(set(ids)))
        ctx.sample({'pair': [p, c], 'cell': x, 'children': len(ids)})
    elif spec['part'] == 'big_sizing':
        # outputs beyond a million cells: the sizing rule, the filling and the hierarchy must still agree
        for it in range(spec['n']):
            t = ctx.rnd.choice((10, 10, 11))
            face = ctx.rnd.choice(a5.cell_to_children(0, 0))
            x, y = gen.random_cell(ctx.rnd, a5, ctx.rnd.randint(t - 4, t)), gen.random_cell(ctx.rnd, a5, ctx.rnd.randint(t - 3, t))
            cells = [face, x, y] if it % 2 == 0 else [x, face, y]
            rs = [a5.get_resolution(c_) for c_ in cells]
            want = sum(get_num_children(r_, t) for r_ in rs)
            case = {'cells': cells, 't': t}
            ctx.case((tuple(cells), t))
            try:
                out = a5.uncompact(cells, t)
            except Exception as e:
                ctx.fail('sizing_raises', case, exc=repr(e))
                continue
            ctx.count('big_outputs')
            if len(out) != want or 0 in out[-3:] or a5.get_resolution(out[-1]) != t or a5.cell_to_parent(out[-1], rs[-1]) != cells[-1]:
                ctx.fail('sizing_mismatch', case, uncompact_len=len(out), rule=want)
            del out
        ctx.sample(case)
    elif spec['part'] == 'sizing':
        # the child-count rule as it is used to size outputs: len(uncompact(list, t)) == sum of get_num_children == sum of observed
        # lengths, for mixed-resolution lists in which resolutions re-appear, with the hierarchy queried again afterwards
        for _ in range(spec['n']):
            t = ctx.rnd.randint(0, 29)
            k = ctx.rnd.randint(1, 6)
            rs = [ctx.rnd.randint(max(-1 if t <= 3 else 0, t - 4), t) for _ in range(k)]
            if ctx.rnd.random() < 0.5 and k >= 3:
                rs[-1] = rs[0]  # a resolution that re-appears after a different one
            cells = [0 if r == -1 else gen.random_cell(ctx.rnd, a5, r) for r in rs]
            if ctx.rnd.random() < 0.3:
                cells[0] = ctx.rnd.choice(a5.cell_to_children(0, 0)) if t >= 0 and t <= 4 else cells[0]
            rs = [a5.get_resolution(x) for x in cells]
            case = {'cells': cells, 't': t}
            ctx.case((tuple(cells), t), nontrivial=any(r < t for r in rs))
            want = sum(get_num_children(r, t) for r in rs)
            try:
                out = a5.uncompact(cells, t)
            except Exception as e:
                ctx.fail('sizing_raises', case, exc=repr(e))
                continue
            lens = [len(a5.cell_to_children(x, t)) for x in cells]
            ctx.count('sizing_lists')
            if len(out) != want or sum(lens) != want:
                ctx.fail('sizing_mismatch', case, uncompact_len=len(out), rule=want, observed=sum(lens))
            out.reverse()  # hostile caller
            del out[:1]
            lens2 = [len(a5.cell_to_children(x, t)) for x in cells]
            if lens2 != lens:
                ctx.fail('length_depends_on_history', case, before=lens, after=lens2)
        ctx.sample(case)
    else:
        r = spec['r']
        ids = a5.cell_to_children(0, r)
        ctx.case(('enum', r))
        ctx.count('ids_enumerated', len(ids))
        d = len(set(ids))
        if d != a5.get_num_cells(r) or d != N(r) or d != len(ids):
            ctx.fail('enum_count', {'r': r}, distinct=d, listed=len(ids), get_num_cells=a5.get_num_cells(r))
        if r <= spec['sumtop']:
            for p in range(-1, r):
                ctx.case(('sum', p, r))
                tot = sum(len(a5.cell_to_children(x, r)) for x in a5.cell_to_children(0, p))
                if tot != a5.get_num_cells(r):
                    ctx.fail('sum_children', {'p': p, 'r': r}, total=tot, get_num_cells=a5.get_num_cells(r))
        ctx.sample({'r': r, 'distinct_ids': d, 'get_num_cells': a5.get_num_cells(r)})


def finalize(m, tier):
    inc = []
    for md in ('line', 'instruction'):
        if m['counters'].get('metadata_interleavings_%s' % md, 0) < 500:
            inc.append('fewer than 500 %s-level metadata interleavings were produced' % md)
    return {'exhaustive': True, 'inconclusive': inc,
            'explanation': 'the metadata domain (31 resolutions, 496 resolution pairs) is finite and enumerated completely; '
                           'enumeration-backed counts reach level %d' % (6 if tier == 'quick' else 8)}


def replay(f, ctx):
    c = f.get('case', {})
    if f.get('kind', '').startswith('metadata_'):
        # needs the just-imported state: nothing else may have been called in this process
        run_shard({'part': 'interleave', 'mode': c.get('mode', 'line')}, ctx)
        return
    if 'cells' in c:
        import a5
        from a5.core.cell_info import get_num_children
        rs = [a5.get_resolution(x) for x in c['cells']]
        want = sum(get_num_children(r, c['t']) for r in rs)
        try:
            out = a5.uncompact(list(c['cells']), c['t'])
            if len(out) != want:
                ctx.fail('sizing_mismatch', c, uncompact_len=len(out), rule=want)
        except Exception as e:
            ctx.fail('sizing_raises', c, exc=repr(e))
        return
    run_shard({'part': 'meta'}, ctx)
    if 'r' in c and 'p' not in c:
        run_shard({'part': 'enum', 'r': min(c['r'], 8), 'sumtop': 6}, ctx)
