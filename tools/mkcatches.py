#!/usr/bin/env python3
"""Rewrites the table between <!-- CATCHES:BEGIN --> and <!-- CATCHES:END --> in DESIGN.md from seeded/RESULTS.json and mutants/RESULTS.json."""
import json, os
V = os.path.dirname(os.path.dirname(os.path.abspath(__file__)))
rows = []
for d, label in (('seeded', 'sub-agent'), ('mutants', 'own')):
    rp = os.path.join(V, d, 'RESULTS.json')
    if not os.path.exists(rp):
        continue
    res = json.load(open(rp))
    for name in sorted(res):
        mp = os.path.join(V, d, name, 'meta.json')
        if not os.path.exists(mp):
            continue
        meta = json.load(open(mp))
        e = res[name]
        needs = meta.get('needs_to_manifest') or meta.get('what', '')
        cells = []
        for key, r in sorted(e.get('checks', {}).items()):
            cells.append('%s %s' % (key, ('**caught** (' + ', '.join(r['kinds'][:3]) + ')') if r['rc'] == 1 else ('missed' if r['rc'] == 0 else 'inconclusive')))
        tests = e.get('repo_tests', '')
        t = '' if not tests else (' [repo tests: %s]' % ('pass' if '925 passed' in tests else 'FAIL'))
        rows.append('| `%s/%s` | %s | %s%s | %s |' % (d, name, meta['property'], needs[:150].replace('|', '/'), t, '; '.join(cells)))
table = '| change | property | what it needs to manifest | result |\n|---|---|---|---|\n' + '\n'.join(rows) + '\n'
p = os.path.join(V, 'DESIGN.md')
s = open(p).read()
b, e = '<!-- CATCHES:BEGIN -->', '<!-- CATCHES:END -->'
if b not in s:
    s += '\n' + b + '\n' + e + '\n'
s = s[:s.index(b) + len(b)] + '\n' + table + s[s.index(e):]
open(p, 'w').write(s)
print(len(rows), 'rows')
