"""C04 - all cells of a resolution have equal area (4*pi*R^2 / count)."""
import math

ID = 'C04'
NEEDS_GEO_SELFTEST = True
LEDGER_FILES = ['a5/projections/polyhedral.py', 'a5/projections/dodecahedron.py', 'a5/projections/authalic.py',
                'a5/core/cell.py', 'a5/core/cell_info.py', 'a5/core/coordinate_transforms.py']
MUST_ENTER = [('a5/core/cell.py', 'cell_to_boundary'), ('a5/projections/polyhedral.py', 'inverse'), ('a5/projections/authalic.py', 'inverse'),
              ('a5/core/cell_info.py', 'cell_area'), ('a5/projections/dodecahedron.py', '_get_reflected_face_triangle')]
RULE = ('cells: all cells of levels 0..3 (quick) / 0..5 (thorough); sampled cells at r in 4..29 stratified over generators (cells touching '
        'face centres / vertices / edge midpoints / seams via the frame generator, polar, antimeridian, uniform, equator, structured deep ids) and deep cells placed on the INTERNAL BRANCH BOUNDARIES of the projection code, which are located at run time by bisection on sys.monitoring line signatures (rv/branch.py). Per '
        'cell: area of the ring in the Lambert azimuthal equal-area plane at its centroid (vertices mapped to the authalic sphere by the '
        'closed form, not the library series) at s, 2s, 4s, ... segments with the envelope rule E = max(d_k, d_(k-1)/4, d_(k-2)/16): held if '
        '|a/a0 - 1| + 4E <= tol, violated only if |a/a0 - 1| > tol + 4E, else refine up to s=2048 (inconclusive beyond); a0 = 4 pi / N(r), '
        'tol(r) = 1e-6 + 5e-14 rad / w(r) (vertex noise allowance); for r>=8 every ring vertex added by a doubling must lie within the chord sag of a smooth edge (5x the measured maximum 1.4e-2 w / s^1.7), else the ring at that segment count is off the curve; cell_area(r)*get_num_cells(r) cross-checked. distinct = distinct ids; non-trivial = r>=1')
ASSUMPTIONS = ['WGS84 authalic sphere', 'vertex noise of up to 5e-14 rad (0.3 um; measured 1e-15..1e-14) is part of the numerical accuracy of the boundary (tol grows to 3e-5 at r=29, stays 1.0e-6 below r=20)']
R_AUTH = 6371007.2
NOISE_RAD = 5e-14  # absolute vertex noise allowance (rad); measured: area error x width is constant ~1e-15..1e-14 rad across levels


def plan(tier, seed):
    top = 3 if tier == 'quick' else 5
    specs = [{'part': 'enum', 'face': f, 'top': top} for f in range(12)]
    for i in range(8 if tier == 'quick' else 36):
        specs.append({'part': 'sampled', 'n': 1000 if tier == 'quick' else 6400})
    return specs


def eval_cell(a5, geo, c, r, cls, ctx):
    case = {'cell': c, 'r': r, 'cls': cls}
    ctx.case(c, nontrivial=r >= 1)
    a0 = 4 * math.pi / geo.num_cells(r)
    tol = 1e-6 + NOISE_RAD / geo.width(r)
    s0 = 2 if r >= 8 else (4 if r >= 4 else 16)

    w = geo.width(r)
    offcurve = []

    open_ring = (c >> 1) % 2 == 0 if r >= 2 else (c >> 58) % 2 == 0   # half of the cells are measured through open rings

    def f(s):
        if open_ring:
            ring = a5.cell_to_boundary(c, {'segments': s, 'closed_ring': False})
            ring = ring[-1:] + ring[:-1]    # the final reversal leaves the first corner last: rotate it to index 0
        else:
            ring = a5.cell_to_boundary(c, {'segments': s, 'closed_ring': True})[:-1]
        vs = [geo.ll_to_vec(lo, la) for lo, la in ring]
        if r >= 8 and s >= 2 and s % 2 == 0:
            # smoothness monitor: the vertices this ring adds to the ring at s/2 (odd positions; index 0 is a corner) must lie on
            # the curve, i.e. within the chord sag of a smooth edge: measured maximum on the unchanged tree 1.4e-2 w / (s/2)^1.8
            n = len(vs)
            worst = 0.0
            for i in range(1, n, 2):
                a, b, x = vs[i - 1], vs[(i + 1) % n], vs[i]
                d1, dx = geo.sub(b, a), geo.sub(x, a)
                dd = geo.dot(d1, d1)
                if dd == 0:
                    continue
                t = geo.dot(dx, d1) / dd
                worst = max(worst, geo.norm(geo.sub(dx, geo.scale(d1, t))) / w)
            h = s // 2
            ctx.maxi('off_chord_w_at_%d_segments' % h if h <= 8 else 'off_chord_w_beyond_8_segments', worst, case)
            bound = 5 * 1.4e-2 / h ** 1.7 + 1e-4 + 10 * NOISE_RAD / w
            if worst > bound:
                offcurve.append((s, worst, bound))
        return geo.laea_area(vs) / a0
    try:
        verdict, s, e, E = geo.decide_seq(f, s0, 2048, tol)
    except Exception as ex:
        ctx.fail('raises', case, exc=repr(ex))
        return
    band = 'lo' if r < 10 else ('mid' if r < 20 else 'hi')
    ctx.count('%s_%s_%s' % (cls, band, verdict))
    ctx.count('rings_open' if open_ring else 'rings_closed')
    if offcurve:
        sg, wv, bd = offcurve[0]
        ctx.fail('boundary_vertex_off_curve', case, segments=sg, off_chord_w=wv, bound_w=bd)
    if verdict == 'held':
        ctx.maxi('area_rel_err_held', abs(e), case)
        ctx.maxi('segments_needed', s, case)
        if r >= 27:
            # at the deepest levels with the edges resolved the residual is vertex noise: error x width in rad (allowance 5e-14)
            ctx.maxi('area_noise_rad_r27plus', abs(e) * geo.width(r), case)
    elif verdict == 'violated':
        ctx.fail('area', case, rel_err=e, envelope=E, segments=s, tol=tol)
    else:
        ctx.count('area_inconclusive')
        ctx.note('inconclusive area for cell %d r=%d: err %r envelope %r at s=%d' % (c, r, e, E, s))


def run_shard(spec, ctx):
    import a5
    from rv import geo, gen, probe
    probe.count_only([('a5.core.cell', 'cell_to_boundary'), ('a5.core.cell_info', 'cell_area')])
    rnd = ctx.rnd
    for r in range(0, 31):
        rel = abs(a5.cell_area(r) * (geo.num_cells(r)) / (4 * math.pi * R_AUTH ** 2) - 1)
        if rel > 1e-15 or a5.get_num_cells(r) != geo.num_cells(r):
            ctx.fail('cell_area_metadata', {'r': r}, rel=rel)
    if spec['part'] == 'enum':
        face = a5.cell_to_children(0, 0)[spec['face']]
        for r in range(0, spec['top'] + 1):
            for c in a5.cell_to_children(face, r):
                eval_cell(a5, geo, c, r, 'enum', ctx)
        ctx.sample({'cell': c, 'r': r})
        return
    from rv import branch
    bpts = branch.hostile_points(a5, rnd)
    ctx.counters['branch_boundary_points'] = len(bpts)
    for ll_, where_ in bpts:
        ctx.setadd('branch_boundaries_located', where_)
    for n in range(spec['n']):
        kind = ('frame', 'polar', 'uniform', 'pattern', 'edge', 'antimeridian', 'seam', 'equator', 'branch')[n % 9]
        r = rnd.randint(4, 29)
        try:
            if kind == 'branch':
                if not bpts:
                    continue
                r = rnd.choice((29, 29, 28, 27, 26, 25, 24, rnd.randint(8, 23)))
                c = a5.lonlat_to_cell(branch.near(rnd, bpts[rnd.randrange(len(bpts))][0], geo.width(r)), r)
            elif kind == 'pattern':
                c = gen.cell_by_path(a5, rnd.randrange(12), rnd.randrange(5), gen.digits_pattern(rnd, r - 1))
            else:
                p, _ = gen.point(rnd, a5, kind, r)
                c = a5.lonlat_to_cell(p, r)
        except Exception as e:
            ctx.note('locating call raised %r' % (e,))
            continue
        eval_cell(a5, geo, c, r, kind, ctx)
    ctx.sample({'cell': c, 'r': r, 'cls': kind})


def finalize(m, tier):
    inc = []
    for k in ('enum_lo_held', 'frame_hi_held', 'polar_hi_held', 'uniform_hi_held', 'pattern_hi_held', 'edge_hi_held', 'seam_hi_held', 'equator_hi_held'):
        if m['counters'].get(k, 0) < 100:
            inc.append('class %s below floor' % k)
    n_inc = m['counters'].get('area_inconclusive', 0)
    if n_inc > 0.01 * max(1, m['evaluations']):
        inc.append('%d cell areas did not converge within 2048 segments' % n_inc)
    return {'inconclusive': inc, 'explanation': 'levels 0..%d complete' % (3 if tier == 'quick' else 5)}


def replay(f, ctx):
    import a5
    from rv import geo
    c = f['case']
    if 'cell' in c:
        eval_cell(a5, geo, c['cell'], c['r'], c.get('cls', 'replay'), ctx)
