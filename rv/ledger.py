"""Line-reach ledger: which lines / functions of the anchored files did this run's workload execute.

sys.monitoring tool 4, LINE events that return DISABLE after the first hit of each location, so the
steady-state cost is nil. 'functions' are code objects of def/lambda bodies found by compiling the file.
"""
import sys

TOOL = 4


def _code_objects(co, out):
    for c in co.co_consts:
        if hasattr(c, 'co_code'):
            out.append(c)
            _code_objects(c, out)


class Ledger:
    def __init__(self, files):
        self.files = set(files)
        self.hit = {f: set() for f in files}
        self.total = {}
        self.funcs = {}
        for f in files:
            try:
                top = compile(open(f).read(), f, 'exec')
            except OSError:
                self.total[f] = set()
                self.funcs[f] = {}
                continue
            cos = []
            _code_objects(top, cos)
            lines = set()
            fl = {}
            for c in cos:
                if c.co_name in ('<listcomp>', '<genexpr>', '<dictcomp>', '<setcomp>', '<lambda>'):
                    body = {l for _, _, l in c.co_lines() if l is not None}
                    lines |= body
                    continue
                body = {l for _, _, l in c.co_lines() if l is not None and l != c.co_firstlineno}
                lines |= body
                if c.co_name.startswith('<'):
                    continue
                fl.setdefault(c.co_name, set()).update(body)
            self.total[f] = lines
            self.funcs[f] = fl

    def _cb(self, code, line):
        f = code.co_filename
        if f in self.files:
            self.hit[f].add(line)
        return sys.monitoring.DISABLE

    def start(self):
        m = sys.monitoring
        m.use_tool_id(TOOL, 'rv-ledger')
        m.register_callback(TOOL, m.events.LINE, self._cb)
        m.set_events(TOOL, m.events.LINE)

    def stop(self):
        m = sys.monitoring
        m.set_events(TOOL, 0)
        m.register_callback(TOOL, m.events.LINE, None)
        m.free_tool_id(TOOL)

    def report(self, root):
        out = {}
        for f in self.files:
            hit = self.hit[f] & self.total[f]
            fh = [name for name, body in self.funcs[f].items() if body & self.hit[f]]
            out[f] = {'total': len(self.total[f]), 'hit': sorted(hit), 'funcs_total': sorted(self.funcs[f]),
                      'funcs_hit': sorted(fh)}
        return out
