"""C10 - uncompact expands each cell to exactly its descendants at the target level."""
import copy

ID = 'C10'
LEDGER_FILES = ['a5/core/compact.py', 'a5/core/cell_info.py']
MUST_ENTER = [('a5/core/compact.py', 'uncompact')]
RULE = ('lists of 0..40 cells (repeats allowed, r in -1..29) and targets t in 0..29 with the per-cell expansion factor capped at 4^6; '
        'world cell, aperture jumps, t=r identity, index-adjacent sibling runs straddling two parents, children lists with one local edit to order or multiplicity (swap, repeat, cousin, drop, rotate), returned lists scrambled and the call repeated, inputs finer than t (must raise), tuple arguments; oracle = hierarchy model '
        '(block i == descendants of input i, each mapping back through cell_to_parent). distinct = distinct (list, t); '
        'non-trivial = at least one input strictly coarser than t or an error case')
ASSUMPTIONS = ['expansion factor bounded to keep outputs enumerable, as the quantifier states']


def plan(tier, seed):
    n = 1300 if tier == 'quick' else 60000
    return [{'n': n} for _ in range(16)]


def model_len(rc, b):
    n = 1
    for lvl in range(rc, b):
        n *= 12 if lvl == -1 else (5 if lvl == 0 else 4)
    return n


def eval_case(a5, cells, t, ctx, case):
    snapshot = copy.deepcopy(cells)
    res = [a5.get_resolution(c) for c in cells]
    if cells and ctx.rnd.random() < 0.2:
        # another part of the program expanded one of these cells before and edited the list it got (a DFS stack, a trimmed list)
        cx = cells[ctx.rnd.randrange(len(cells))]
        rx = a5.get_resolution(cx)
        if rx <= t <= rx + 5:
            tmp = a5.cell_to_children(cx, t)
            tmp.reverse()
            del tmp[len(tmp) // 2:]
            tmp.append(0)
            ctx.count('children_lists_edited_before_call')
    finer = any(r > t for r in res)
    try:
        out = a5.uncompact(cells, t)
    except ValueError as e:
        if cells != snapshot or type(cells) is not type(snapshot):
            ctx.fail('argument_modified_on_raise', case)
        if not finer:
            ctx.fail('raises', case, exc=repr(e))
        else:
            ctx.count('finer_input_raised')
        return
    except Exception as e:
        ctx.fail('raises', case, exc=repr(e))
        return
    if cells != snapshot:
        ctx.fail('argument_modified', case)
    if finer:
        ctx.fail('finer_input_returned', case, out_len=len(out))
        return
    want_len = sum(model_len(r, t) for r in res)
    if len(out) != want_len:
        ctx.fail('length', case, got=len(out), want=want_len)
        return
    if out is cells:
        ctx.fail('returns_argument_object', case)
    off = 0
    for c, r in zip(cells, res):
        n = model_len(r, t)
        block = out[off:off + n]
        off += n
        if len(set(block)) != n:
            ctx.fail('block_repeats', case, cell=c)
            continue
        sample = block if n <= 32 else [block[0], block[-1]] + [block[ctx.rnd.randrange(n)] for _ in range(12)]
        for x in sample:
            if a5.get_resolution(x) != t:
                ctx.fail('output_resolution', case, cell=c, out=x)
                break
            if a5.cell_to_parent(x, r) != c:
                ctx.fail('block_not_descendants', case, cell=c, out=x)
                break
        if n <= 4096 and set(block) != set(a5.cell_to_children(c, t)):
            ctx.fail('block_vs_children', case, cell=c)
        ctx.count('blocks_checked')
    # hostile caller: scramble what was returned, then ask again
    if ctx.rnd.random() < 0.3 and out:
        keep = list(out)
        out.reverse()
        out.append(-1)
        del out[0]
        try:
            again = a5.uncompact(cells, t)
            ctx.count('scramble_and_repeat')
            if again != keep:
                ctx.fail('result_depends_on_mutated_earlier_result', case)
        except Exception as e:
            ctx.fail('raises', case, exc=repr(e))


def make_case(rnd, a5, gen):
    t = rnd.randint(0, 29)
    k = rnd.choice((0, 1, 1, 2, 3, 5, 8, 13, 40))
    cells = []
    for _ in range(k):
        mode = rnd.random()
        if mode < 0.08:
            cells.append(0 if t <= 4 else gen.random_cell(rnd, a5, max(0, t - 3)))
        elif mode < 0.2 and cells:
            cells.append(rnd.choice(cells))  # repeat
        elif mode < 0.3:
            cells.append(gen.random_cell(rnd, a5, t))  # identity
        elif mode < 0.36 and t < 29:
            cells.append(gen.random_cell(rnd, a5, rnd.randint(t + 1, 29)))  # finer: must raise
        else:
            lo = max(0, t - 6) if t > 6 else (0 if t > 4 else -1)
            r = rnd.randint(lo, t)
            cells.append(0 if r == -1 else gen.random_cell(rnd, a5, r))
    if rnd.random() < 0.12 and t >= 2:
        # index-adjacent cells of one resolution straddling two parents, then something finer / coarser at the end
        r = rnd.randint(max(2, t - 3), t)
        g = gen.random_cell(rnd, a5, r - 1)
        kids = a5.cell_to_children(g)
        nxt = a5.cell_to_children(gen.random_cell(rnd, a5, r - 1))
        k = rnd.randint(1, 3)
        cells = kids[k:] + nxt[:k] if rnd.random() < 0.5 else kids[k:] + a5.cell_to_children(a5.cell_to_children(a5.cell_to_parent(g))[-1])[:k]
        if rnd.random() < 0.7:
            cells.append(gen.random_cell(rnd, a5, rnd.randint(r, t)))
        if rnd.random() < 0.3:
            cells.append(gen.random_cell(rnd, a5, rnd.randint(max(0, t - 4), r)))
    if rnd.random() < 0.08 and t >= 1:
        # a sorted run of index-consecutive cells of one resolution that crosses segment / face boundaries (what compact returns)
        r = rnd.randint(1, min(4, t))
        lvl = sorted(a5.cell_to_children(0, r) if r <= 2 else a5.cell_to_children(rnd.choice(a5.cell_to_children(0, 0)), r) +
                     a5.cell_to_children(rnd.choice(a5.cell_to_children(0, 0)), r))
        per = 4 ** (r - 1)
        start = max(0, per * rnd.randint(1, max(1, len(lvl) // per - 1)) - rnd.randint(1, 3))
        cells = lvl[start:start + rnd.randint(2, 9)]
        t = min(t, r + 5)
        if rnd.random() < 0.3:
            cells.append(gen.random_cell(rnd, a5, rnd.randint(r, t)))
    if rnd.random() < 0.1 and t >= 1:
        # the children list of one cell (what cell_to_children or an uncompacted cover hands out) with one local edit to its order
        # or multiplicity: two entries swapped, one entry repeated in place of another, one replaced by a cousin or dropped, rotated
        r = rnd.randint(max(0, t - 4), t - 1) if rnd.random() < 0.8 else -1
        if r + 1 > t or (r == -1 and t > 3):
            r = t - 1
        g = 0 if r == -1 else gen.random_cell(rnd, a5, r)
        kids = a5.cell_to_children(g)
        i, j = rnd.sample(range(len(kids)), 2)
        edit = rnd.choice(('swap', 'swap_middle', 'repeat', 'repeat_middle', 'cousin', 'drop', 'rotate', 'none'))
        if edit == 'swap':
            kids[i], kids[j] = kids[j], kids[i]
        elif edit == 'swap_middle':
            kids[1], kids[2] = kids[2], kids[1]
        elif edit == 'repeat':
            kids[i] = kids[j]
        elif edit == 'repeat_middle':
            i, j = rnd.sample(range(1, len(kids) - 1), 2)
            kids[i] = kids[j]
        elif edit == 'cousin':
            other = a5.cell_to_children(0 if r == -1 else gen.random_cell(rnd, a5, r))
            kids[i] = other[min(i, len(other) - 1)]
        elif edit == 'drop':
            del kids[i]
        elif edit == 'rotate':
            kids = kids[i:] + kids[:i]
        pre = cells[:rnd.randint(0, 2)] if not isinstance(cells, tuple) else []
        pre = [c for c in pre if a5.get_resolution(c) <= t]
        cells = pre + kids + ([gen.random_cell(rnd, a5, rnd.randint(max(0, t - 3), t))] if rnd.random() < 0.4 else [])
        if rnd.random() < 0.3:
            cells = cells + a5.cell_to_children(g)
    if rnd.random() < 0.1:
        cells = tuple(cells)
    return cells, t


def run_shard(spec, ctx):
    import a5
    from rv import gen, probe
    probe.count_only([('a5.core.compact', 'uncompact')])
    for _ in range(spec['n']):
        cells, t = make_case(ctx.rnd, a5, gen)
        case = {'cells': list(cells), 't': t, 'tuple': isinstance(cells, tuple)}
        res = [a5.get_resolution(c) for c in cells]
        ctx.case((tuple(cells), t), nontrivial=any(r != t for r in res))
        ctx.count('target_%s' % ('low' if t < 3 else ('mid' if t < 20 else 'deep')))
        eval_case(a5, cells, t, ctx, case)
    ctx.sample(case)


def finalize(m, tier):
    inc = []
    if m['counters'].get('blocks_checked', 0) < 1000 or m['counters'].get('finer_input_raised', 0) < 50:
        inc.append('too few blocks / error cases observed')
    return {'inconclusive': inc}


def replay(f, ctx):
    import a5
    c = f['case']
    cells = tuple(c['cells']) if c.get('tuple') else list(c['cells'])
    eval_case(a5, cells, c['t'], ctx, c)
