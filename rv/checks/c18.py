"""C18 - curve index <-> lattice position is a bijection for all orientations and levels."""
import math

ID = 'C18'
LEDGER_FILES = ['a5/core/hilbert.py', 'a5/core/tiling.py']
MUST_ENTER = [('a5/core/hilbert.py', 's_to_anchor'), ('a5/core/hilbert.py', 'ij_to_s'), ('a5/core/hilbert.py', '_shift_digits'),
              ('a5/core/tiling.py', 'get_pentagon_vertices')]
ORIENTS = ['uv', 'vu', 'uw', 'wu', 'vw', 'wv']
RULE = ('(orientation, level h, index S): exhaustive for h<=6 (quick) / 8 (thorough) in all six orientations with a planar '
        'manifold-with-boundary certificate per (orientation, h) (every directed edge once, interior edges paired, boundary one closed '
        'loop, loop area = sum of pentagon areas = segment triangle area); digit-pattern-directed and random S for h up to 28. Per case: '
        'ij_to_s(face_to_ij(2^h * centre(pentagon(s_to_anchor(S)))))==S and prefix locality (centre within 1.5 sqrt(area_k) of the '
        'level-k prefix cell). distinct = distinct (orientation, h, S); non-trivial = h>=2')
ASSUMPTIONS = ['quintant 0 only: the other quintants are rigid rotations of the same lattice (exercised through C02/C03)',
               '"descends from" is operationalised as the C07 drift bound 1.5 sqrt(area)']


def plan(tier, seed):
    top = 6 if tier == 'quick' else 8
    specs = []
    for o in ORIENTS:
        specs.append({'part': 'exhaustive', 'o': o, 'levels': list(range(1, top))})
        specs.append({'part': 'exhaustive', 'o': o, 'levels': [top]})
    for i in range(4 if tier == 'quick' else 16):
        specs.append({'part': 'deep', 'n': 15000 if tier == 'quick' else 120000})
    return specs


class Cluster:
    def __init__(self, eps):
        self.eps = eps
        self.ids = {}
        self.n = 0

    def id(self, p):
        kx, ky = round(p[0] / self.eps), round(p[1] / self.eps)
        for dx in (0, -1, 1):
            for dy in (0, -1, 1):
                v = self.ids.get((kx + dx, ky + dy))
                if v is not None:
                    return v
        self.ids[(kx, ky)] = self.n
        self.n += 1
        return self.n - 1


def shoelace(vs):
    a = 0.0
    for i in range(len(vs)):
        x1, y1 = vs[i]
        x2, y2 = vs[(i + 1) % len(vs)]
        a += x1 * y2 - x2 * y1
    return a / 2


def pent(H, T, S, h, o):
    return T.get_pentagon_vertices(h, 0, H.s_to_anchor(S, h, o))


def roundtrip(H, T, CT, S, h, o, ctx, case):
    try:
        p = pent(H, T, S, h, o)
        c = p.get_center()
        sc = 2 ** h
        back = H.ij_to_s(CT.face_to_ij((c[0] * sc, c[1] * sc)), h, o)
    except Exception as e:
        ctx.fail('raises', case, exc=repr(e))
        return None
    if back != S:
        ctx.fail('roundtrip', case, back=back)
    return p


def locality(H, T, S, h, o, p, ctx, case, base_area, ks=None):
    c = p.get_center()
    for k in (ks or range(1, h)):
        q = pent(H, T, S >> (2 * (h - k)), k, o).get_center()
        d = math.hypot(c[0] - q[0], c[1] - q[1]) / (math.sqrt(base_area) * 2.0 ** -k)
        ctx.maxi('prefix_drift_in_sqrt_area', d, case)
        if d > 1.5:
            ctx.fail('prefix_locality', case, k=k, drift=d)


def run_shard(spec, ctx):
    import a5.core.hilbert as H
    import a5.core.tiling as T
    import a5.core.coordinate_transforms as CT
    from a5.core.pentagon import TRIANGLE
    from rv import gen, probe
    probe.count_only([('a5.core.hilbert', 's_to_anchor'), ('a5.core.hilbert', 'ij_to_s'), ('a5.core.tiling', 'get_pentagon_vertices'),
                      ('a5.core.coordinate_transforms', 'face_to_ij')])
    tri_area = abs(shoelace(TRIANGLE.get_vertices()))
    base_area = tri_area  # a level-h pentagon has area tri_area / 4^h
    if spec['part'] == 'exhaustive':
        o = spec['o']
        for h in spec['levels']:
            cl = Cluster(1e-9)
            edges = {}
            seen = {}
            tot = 0.0
            for S in range(4 ** h):
                case = {'o': o, 'h': h, 'S': S}
                ctx.case((o, h, S), nontrivial=h >= 2)
                p = roundtrip(H, T, CT, S, h, o, ctx, case)
                if p is None:
                    continue
                vs = p.get_vertices()
                if h <= 6 or S % 7 == 0:
                    locality(H, T, S, h, o, p, ctx, case, base_area)
                ids = [cl.id(v) for v in vs]
                key = tuple(sorted(ids))
                if key in seen:
                    ctx.fail('same_pentagon', case, other=seen[key])
                seen[key] = S
                a = shoelace(vs)
                tot += abs(a)
                if abs(abs(a) * 4 ** h / tri_area - 1) > 1e-9:
                    ctx.fail('pentagon_area', case, ratio=abs(a) * 4 ** h / tri_area)
                if a < 0:
                    ids = ids[::-1]
                for i in range(len(ids)):
                    e = (ids[i], ids[(i + 1) % len(ids)])
                    if e[0] == e[1]:
                        ctx.fail('degenerate_edge', case)
                    if e in edges:
                        ctx.fail('directed_edge_twice', case, other=edges[e])
                    edges[e] = S
            # boundary = directed edges without a reverse partner
            bnd = {e for e in edges if (e[1], e[0]) not in edges}
            nxt = {}
            ok = True
            for e in bnd:
                if e[0] in nxt:
                    ok = False
                nxt[e[0]] = e[1]
            cert = {'o': o, 'h': h}
            if not ok or not bnd:
                ctx.fail('boundary_not_a_loop', cert, boundary_edges=len(bnd))
            else:
                start = next(iter(nxt))
                loop = [start]
                cur = nxt[start]
                while cur != start and len(loop) <= len(bnd) and cur in nxt:
                    loop.append(cur)
                    cur = nxt[cur]
                if cur != start or len(loop) != len(bnd):
                    ctx.fail('boundary_not_a_loop', cert, boundary_edges=len(bnd), loop=len(loop))
                else:
                    pos = {}
                    for (kx, ky), i in cl.ids.items():
                        pos[i] = (kx * cl.eps, ky * cl.eps)
                    la = abs(shoelace([pos[i] for i in loop]))
                    if abs(la / tri_area - 1) > 1e-6 or abs(tot / tri_area - 1) > 1e-12:
                        ctx.fail('area_mismatch', cert, loop_over_triangle=la / tri_area, sum_over_triangle=tot / tri_area)
                    ctx.maxi('certificate_sum_area_rel_err', abs(tot / tri_area - 1), cert)
            ctx.count('certificates')
            ctx.count('boundary_edges_h%d' % h, len(bnd))
            ctx.sample({'o': o, 'h': h, 'pentagons': len(seen), 'vertices': cl.n, 'directed_edges': len(edges), 'boundary_edges': len(bnd)})
        return
    for _ in range(spec['n'] // 20):
        h = ctx.rnd.choice((1, 2, 2, 3, 4, ctx.rnd.randint(5, 28)))
        ds = gen.digits_pattern(ctx.rnd, h)
        S = 0
        for d in ds:
            S = S * 4 + d
        order = ORIENTS[:]
        ctx.rnd.shuffle(order)
        for o in order + order[:2]:
            case = {'o': o, 'h': h, 'S': S}
            ctx.case((o, h, S, 'perm'))
            roundtrip(H, T, CT, S, h, o, ctx, case)
        ctx.count('orientation_permutation_groups')
    for _ in range(spec['n']):
        o = ctx.rnd.choice(ORIENTS)
        h = ctx.rnd.randint(7, 28) if ctx.rnd.random() < 0.9 else ctx.rnd.randint(1, 28)
        ds = gen.digits_pattern(ctx.rnd, h)
        if ctx.rnd.random() < 0.3:  # every adjacent digit pair in a random context
            i = ctx.rnd.randrange(max(1, h - 1))
            ds[i] = ctx.rnd.randint(0, 3)
            if i + 1 < h:
                ds[i + 1] = ctx.rnd.randint(0, 3)
        S = 0
        for d in ds:
            S = S * 4 + d
        case = {'o': o, 'h': h, 'S': S}
        ctx.case((o, h, S))
        ctx.count('deep_h%02d' % h)
        p = roundtrip(H, T, CT, S, h, o, ctx, case)
        if p is not None:
            ks = sorted({ctx.rnd.randint(1, h - 1) for _ in range(3)}) if h > 1 else []
            locality(H, T, S, h, o, p, ctx, case, base_area, ks)
            # siblings are distinct pentagons
            if h >= 1:
                sib = S ^ ctx.rnd.randint(1, 3)
                q = pent(H, T, sib, h, o).get_center()
                c = p.get_center()
                if math.hypot(c[0] - q[0], c[1] - q[1]) < 0.05 * math.sqrt(base_area) * 2.0 ** -h:
                    ctx.fail('same_pentagon', case, other=sib)
    ctx.sample(case)


def finalize(m, tier):
    inc = []
    top = 6 if tier == 'quick' else 8
    if m['counters'].get('certificates', 0) != 6 * top:
        inc.append('certificates incomplete')
    return {'inconclusive': inc, 'explanation': 'levels 1..%d complete in all six orientations' % top}


def replay(f, ctx):
    import a5.core.hilbert as H
    import a5.core.tiling as T
    import a5.core.coordinate_transforms as CT
    from a5.core.pentagon import TRIANGLE
    c = f['case']
    if 'S' in c:
        p = roundtrip(H, T, CT, c['S'], c['h'], c['o'], ctx, c)
        if p is not None and c['h'] > 1:
            locality(H, T, c['S'], c['h'], c['o'], p, ctx, c, abs(shoelace(TRIANGLE.get_vertices())))
    if f['kind'] not in ('roundtrip', 'raises', 'prefix_locality') and c['h'] <= 8:
        run_shard({'part': 'exhaustive', 'o': c['o'], 'levels': [c['h']]}, ctx)
