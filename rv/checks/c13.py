"""C13 - dodecahedral projection and its inverse are mutual inverses on every face."""
import math

ID = 'C13'
NEEDS_GEO_SELFTEST = True
LEDGER_FILES = ['a5/projections/dodecahedron.py', 'a5/projections/polyhedral.py', 'a5/projections/gnomonic.py',
                'a5/core/coordinate_transforms.py', 'a5/math/vec3.py']
MUST_ENTER = [('a5/projections/dodecahedron.py', 'forward'), ('a5/projections/dodecahedron.py', 'inverse'),
              ('a5/projections/dodecahedron.py', '_get_reflected_face_triangle'), ('a5/projections/polyhedral.py', 'forward'),
              ('a5/projections/polyhedral.py', 'inverse'), ('a5/core/coordinate_transforms.py', 'to_spherical')]
RULE = ('(a) unit vectors x (uniform; log-scale 1e-12..1e-1 rad neighbourhoods of the 62 frame points incl. both poles, displaced along '
        'seams/edges) projected with the nearest face and with the edge-adjacent (second nearest) face, then unprojected: angle(x, back) '
        '<= 1e-11 rad; (b) face-plane points q by barycentric sampling inside the 5 centre triangles and the 5 mirror triangles of every '
        'face with one or two weights log-small (1e-12..1): |forward(inverse(q)) - q| <= 1e-11. Both on the library singleton and on a '
        'fresh instance (cold caches). distinct = distinct (x or q, face); non-trivial = every case (none is a fixed point by construction)')
ASSUMPTIONS = ['face-plane orientation and pentagon vertices are taken from a5.core.tiling.get_face_vertices as the definition of the domain',
               'face axes are taken from a5.core.origin.origins as seeds for nearest-face selection']
TOL = 1e-11


def plan(tier, seed):
    n = 12000 if tier == 'quick' else 320000
    return [{'n': n, 'fresh': i % 2 == 1} for i in range(16)]


def sph_of(v):
    return (math.atan2(v[1], v[0]), math.atan2(math.hypot(v[0], v[1]), v[2]))


def vec_of(s):
    th, ph = s
    sp = math.sin(ph)
    return (sp * math.cos(th), sp * math.sin(th), math.cos(ph))


def fwd_inv(D, geo, x, f, ctx, case):
    try:
        q = D.forward(sph_of(x), f)
        back = vec_of(D.inverse(q, f))
    except Exception as e:
        ctx.fail('raises', case, exc=repr(e))
        return
    err = geo.ang(x, back)
    ctx.maxi('fwd_inv_err_rad_' + case['which'], err, case)
    if not (err <= TOL):
        ctx.fail('forward_then_inverse', case, err=err, face_point=q)


def inv_fwd(D, q, f, ctx, case):
    try:
        s = D.inverse(q, f)
        q2 = D.forward(s, f)
    except Exception as e:
        ctx.fail('raises', case, exc=repr(e))
        return
    err = math.hypot(q2[0] - q[0], q2[1] - q[1])
    ctx.maxi('inv_fwd_err_' + case['which'], err, case)
    if not (err <= TOL):
        ctx.fail('inverse_then_forward', case, err=err, back=q2)


def run_shard(spec, ctx):
    import a5
    from a5.projections.dodecahedron import DodecahedronProjection
    from a5.core.origin import origins
    from a5.core.tiling import get_face_vertices
    import a5.core.cell as cellmod
    from rv import geo, gen, probe
    probe.count_only([('a5.projections.dodecahedron', 'DodecahedronProjection.forward'),
                      ('a5.projections.dodecahedron', 'DodecahedronProjection.inverse')])
    D = DodecahedronProjection() if spec['fresh'] else cellmod._dodecahedron
    axes = [vec_of(o.axis) for o in origins]
    pent = [tuple(v) for v in get_face_vertices().get_vertices()]
    rnd = ctx.rnd
    # frame points in the library's theta frame (lon + 93 deg)
    rot = math.radians(93)
    frame = [(k, (v[0] * math.cos(rot) - v[1] * math.sin(rot), v[0] * math.sin(rot) + v[1] * math.cos(rot), v[2])) for k, v in gen.FRAME]
    for n in range(spec['n']):
        if n % 2 == 0:
            k = rnd.random()
            if k < 0.08:
                # next to the half-planes y = 0 of the library frame (azimuth 0 and the +-pi branch cut), both sides
                z = rnd.uniform(-1, 1)
                h = math.sqrt(1 - z * z)
                yy = h * 10 ** rnd.uniform(-15, -2) * rnd.choice((-1, 1, 0))
                x = geo.unit((rnd.choice((-1, -1, 1)) * h, yy, z))
                cls = 'uniform'
            elif k < 0.35:
                x = geo.unit((rnd.gauss(0, 1), rnd.gauss(0, 1), rnd.gauss(0, 1)))
                cls = 'uniform'
            else:
                kind, fpt = frame[rnd.randrange(62)]
                eps = 10 ** rnd.uniform(-12, -1)
                if rnd.random() < 0.4:
                    g = frame[rnd.randrange(62)][1]
                    d = geo.sub(g, geo.scale(fpt, geo.dot(fpt, g)))
                    nn = geo.norm(d)
                    w = geo.scale(d, 1 / nn) if nn > 1e-9 else (1.0, 0.0, 0.0)
                    e2 = geo.unit((rnd.gauss(0, 1), rnd.gauss(0, 1), rnd.gauss(0, 1)))
                    w = geo.add(w, geo.scale(e2, 10 ** rnd.uniform(-9, -1)))
                else:
                    w = geo.unit((rnd.gauss(0, 1), rnd.gauss(0, 1), rnd.gauss(0, 1)))
                x = geo.unit(geo.add(fpt, geo.scale(w, eps)))
                cls = 'frame_' + kind
            dots = sorted(((geo.dot(x, a), i) for i, a in enumerate(axes)), reverse=True)
            f1, f2 = dots[0][1], dots[1][1]
            ctx.count('fwd_inv_' + cls)
            for which, f in (('nearest', f1), ('adjacent', f2)):
                case = {'x': list(x), 'face': f, 'which': which, 'fresh': spec['fresh']}
                ctx.case((x, f))
                fwd_inv(D, geo, x, f, ctx, case)
        else:
            f = rnd.randrange(12)
            i = rnd.randrange(5)
            v1, v2 = pent[i], pent[(i + 1) % 5]
            mirror = rnd.random() < 0.45
            apex = (v1[0] + v2[0], v1[1] + v2[1]) if mirror else (0.0, 0.0)
            mode = rnd.random()
            w = [rnd.random(), rnd.random(), rnd.random()]
            if mode < 0.35:
                w[rnd.randrange(3)] = 10 ** rnd.uniform(-12, 0)
            elif mode < 0.7:
                j = rnd.randrange(3)
                w[j] = 10 ** rnd.uniform(-12, 0)
                w[(j + 1) % 3] = 10 ** rnd.uniform(-12, 0)
            elif mode < 0.8:
                # hug the seam through the edge midpoint: equal weights on the two corners
                w[1] = w[2] = rnd.random()
                w[rnd.choice((1, 2))] *= 1 + 10 ** rnd.uniform(-12, -1) * rnd.choice((-1, 1))
            s = sum(w)
            w = [a / s for a in w]
            q = (w[0] * apex[0] + w[1] * v1[0] + w[2] * v2[0], w[0] * apex[1] + w[1] * v1[1] + w[2] * v2[1])
            which = 'mirror' if mirror else 'pentagon'
            ctx.count('inv_fwd_' + which)
            case = {'q': list(q), 'face': f, 'which': which, 'weights': w, 'fresh': spec['fresh']}
            ctx.case((q, f))
            inv_fwd(D, q, f, ctx, case)
    ctx.sample(case)


def finalize(m, tier):
    inc = []
    for k in ('fwd_inv_uniform', 'fwd_inv_frame_centre', 'fwd_inv_frame_vertex', 'fwd_inv_frame_mid', 'inv_fwd_pentagon', 'inv_fwd_mirror'):
        if m['counters'].get(k, 0) < 500:
            inc.append('class %s below floor' % k)
    return {'inconclusive': inc}


def replay(f, ctx):
    from a5.projections.dodecahedron import DodecahedronProjection
    import a5.core.cell as cellmod
    from rv import geo
    c = f['case']
    for D in (cellmod._dodecahedron, DodecahedronProjection()):
        if 'x' in c:
            fwd_inv(D, geo, tuple(c['x']), c['face'], ctx, c)
        else:
            inv_fwd(D, tuple(c['q']), c['face'], ctx, c)
