"""Ambient monitors: the repository's own test-suite as a workload with cheap post-conditions attached (diagnostic, not a
registered check). Loaded as a pytest plugin (-p rv.ambient); changes no test outcome; writes a JSON report at session end."""
import json
import os

VIOLATIONS = []
COUNTS = {}
_depth = {'n': 0}
M64 = 1 << 64


def _bad(prop, kind, **detail):
    if len(VIOLATIONS) < 200:
        VIOLATIONS.append(dict(property=prop, kind=kind, **{k: repr(v)[:200] for k, v in detail.items()}))


def _guard(fn):
    def wrapped(a, k, r):
        if _depth['n']:
            return
        _depth['n'] += 1
        try:
            fn(a, k, r)
        except Exception as e:  # a monitor must never disturb the test it rides on
            _bad('monitor', 'monitor_error', exc=e)
        finally:
            _depth['n'] -= 1
    return wrapped


def _model_len(rc, b):
    n = 1
    for lvl in range(rc, b):
        n *= 12 if lvl == -1 else (5 if lvl == 0 else 4)
    return n


def pytest_sessionstart(session):
    import a5
    import a5.core.serialization as ser
    from rv import probe
    o_ser, o_des, o_res, o_par, o_chi = ser.serialize, ser.deserialize, ser.get_resolution, ser.cell_to_parent, ser.cell_to_children

    def key(cell):
        r = cell['resolution']
        return (cell['origin'].id, cell['segment'] if r >= 1 else None, cell['S'] if r >= 2 else 0, r)

    @_guard
    def on_serialize(a, k, res):
        cell = a[0]
        r = cell['resolution']
        if r < 0:
            return
        if not (1 <= res < M64):
            _bad('C05', 'id_out_of_range', id=res)
        elif o_res(res) != r or key(o_des(res)) != key(cell):
            _bad('C05', 'decode_differs', id=res, cell=key(cell))

    @_guard
    def on_children(a, k, res):
        idx = a[0]
        rc = o_res(idx)
        b = a[1] if len(a) > 1 and a[1] is not None else k.get('child_resolution', None)
        b = rc + 1 if b is None else b
        if len(res) != _model_len(rc, b) or len(set(res)) != len(res):
            _bad('C06', 'children_length_or_repeat', cell=idx, b=b, n=len(res))
        for x in (res[0], res[-1]):
            if o_res(x) != b or o_par(x, rc) != idx:
                _bad('C06', 'child_parent', cell=idx, child=x)

    @_guard
    def on_parent(a, k, res):
        want = a[1] if len(a) > 1 and a[1] is not None else k.get('parent_resolution', None)
        if want is None:
            want = o_res(a[0]) - 1
        if o_res(res) != want:
            _bad('C06', 'parent_resolution', cell=a[0], want=want, got=res)

    @_guard
    def on_uncompact(a, k, res):
        cells, t = a[0], a[1]
        if len(res) != sum(_model_len(o_res(c), t) for c in cells) or any(o_res(x) != t for x in res[:50]):
            _bad('C10', 'uncompact_shape', cells=cells[:5], t=t, n=len(res))

    @_guard
    def on_compact(a, k, res):
        if len(set(res)) != len(res):
            _bad('C09', 'repeated_output', out=res[:10])
        if len(a[0]) <= 400:
            from rv.tree import Tree
            t = Tree(a5)
            if t.canon(res) != t.canon(a[0]):
                _bad('C08', 'region_changed', cells=a[0][:10])

    @_guard
    def on_boundary(a, k, res):
        idx = a[0]
        if idx == 0:
            return
        opts = (a[1] if len(a) > 1 else k.get('options')) or {}
        r = o_res(idx)
        s = opts.get('segments', 'auto')
        s = max(1, 2 ** (6 - r)) if s in ('auto', None) else s
        closed = opts.get('closed_ring', True)
        if len(res) != (3 if r == 1 else 5) * s + (1 if closed else 0):
            _bad('C12', 'vertex_count', cell=idx, opts=opts, n=len(res))
        if closed and tuple(res[0]) != tuple(res[-1]):
            _bad('C12', 'not_closed', cell=idx)
        if any(not (-90 <= la <= 90) for _, la in res):
            _bad('C12', 'latitude_range', cell=idx)

    @_guard
    def on_l2c(a, k, res):
        if o_res(res) != a[1]:
            _bad('C01', 'wrong_resolution', point=a[0], r=a[1], cell=res)

    @_guard
    def on_hex(a, k, res):
        if isinstance(a[0], int) and 0 <= a[0] < M64 and int(res, 16) != a[0]:
            _bad('C19', 'roundtrip', n=a[0], text=res)

    probe.attach('a5.core.serialization', 'serialize', on_return=on_serialize)
    probe.attach('a5.core.serialization', 'cell_to_children', on_return=on_children)
    probe.attach('a5.core.serialization', 'cell_to_parent', on_return=on_parent)
    probe.attach('a5.core.compact', 'uncompact', on_return=on_uncompact)
    probe.attach('a5.core.compact', 'compact', on_return=on_compact)
    probe.attach('a5.core.cell', 'cell_to_boundary', on_return=on_boundary)
    probe.attach('a5.core.cell', 'lonlat_to_cell', on_return=on_l2c)
    probe.attach('a5.core.hex', 'u64_to_hex', on_return=on_hex)


def pytest_sessionfinish(session, exitstatus):
    from rv import probe
    rep = {'probe_calls': probe.counts(), 'violations': VIOLATIONS, 'pytest_exitstatus': int(exitstatus)}
    out = os.environ.get('RV_AMBIENT_OUT')
    if out:
        json.dump(rep, open(out, 'w'), indent=1)
    print('\nrv.ambient: probe calls %s; %d monitor violations' % (rep['probe_calls'], len(VIOLATIONS)))
    for v in VIOLATIONS[:10]:
        print('rv.ambient VIOLATION', v)
