"""C14 - the face projection preserves area for arbitrary regions, not only cells."""
import math

ID = 'C14'
NEEDS_GEO_SELFTEST = True
LEDGER_FILES = ['a5/projections/polyhedral.py', 'a5/projections/dodecahedron.py', 'a5/core/coordinate_transforms.py']
MUST_ENTER = [('a5/projections/dodecahedron.py', 'inverse'), ('a5/projections/polyhedral.py', 'inverse'),
              ('a5/projections/dodecahedron.py', '_get_reflected_face_triangle'), ('a5/projections/polyhedral.py', '_safe_acos')]
RULE = ('planar triangles and quads P (diameter 1e-4..0.5 face widths, all 12 faces) centred anywhere in the face pentagon or its five mirror '
        'triangles (all densified points must pass the barycentric domain test), a third of them aimed at seams / face edges / the face '
        'centre / face vertices, 15% small triangles with one edge grazing a face centre / vertex / edge midpoint at 1e-10..1e-3 face units. Edges are pre-split at the 10 seam rays and 5 face edges, densified in the plane with s = 4, 8, ... points, '
        'mapped with DodecahedronProjection.inverse, and the image area is measured in the Lambert azimuthal equal-area plane; envelope rule '
        'as in C04 with tol 1e-6 (+ 5e-14 rad / diameter noise allowance), s up to 8192. K = (4 pi / 12) / area(face pentagon). '
        'distinct = distinct (face, polygon); non-trivial = every polygon (area > 0)')
ASSUMPTIONS = ['the face-plane pentagon is taken from a5.core.tiling.get_face_vertices as the definition of the domain']


def plan(tier, seed):
    return [{'n': 220 if tier == 'quick' else 14500} for _ in range(16)]


def vec_of(s):
    th, ph = s
    sp = math.sin(ph)
    return (sp * math.cos(th), sp * math.sin(th), math.cos(ph))


def cross2(a, b):
    return a[0] * b[1] - a[1] * b[0]


def in_tri(p, a, b, c, eps=1e-12):
    d1 = cross2((b[0] - a[0], b[1] - a[1]), (p[0] - a[0], p[1] - a[1]))
    d2 = cross2((c[0] - b[0], c[1] - b[1]), (p[0] - b[0], p[1] - b[1]))
    d3 = cross2((a[0] - c[0], a[1] - c[1]), (p[0] - c[0], p[1] - c[1]))
    neg = d1 < -eps or d2 < -eps or d3 < -eps
    pos = d1 > eps or d2 > eps or d3 > eps
    return not (neg and pos)


class Domain:
    def __init__(self, pent):
        self.pent = pent
        self.tris = []
        self.lines = []  # (point, direction) of seams and face edges
        for i in range(5):
            v1, v2 = pent[i], pent[(i + 1) % 5]
            m = ((v1[0] + v2[0]) / 2, (v1[1] + v2[1]) / 2)
            self.tris.append(((0.0, 0.0), v1, v2))
            self.tris.append(((2 * m[0], 2 * m[1]), v2, v1))
            self.lines.append(((0.0, 0.0), v1))
            self.lines.append(((0.0, 0.0), m))
            self.lines.append((v1, (v2[0] - v1[0], v2[1] - v1[1])))

    def inside(self, p):
        return any(in_tri(p, *t) for t in self.tris)

    def split_params(self, a, b):
        d = (b[0] - a[0], b[1] - a[1])
        ts = []
        for p0, dr in self.lines:
            den = cross2(d, dr)
            if abs(den) < 1e-300:
                continue
            t = cross2((p0[0] - a[0], p0[1] - a[1]), dr) / den
            if 1e-9 < t < 1 - 1e-9:
                ts.append(t)
        return sorted(ts)


def densify(dom, P, s):
    out = []
    n = len(P)
    for i in range(n):
        a, b = P[i], P[(i + 1) % n]
        ts = [0.0] + dom.split_params(a, b) + [1.0]
        for j in range(len(ts) - 1):
            t0, t1 = ts[j], ts[j + 1]
            for q in range(s):
                t = t0 + (t1 - t0) * q / s
                out.append((a[0] + (b[0] - a[0]) * t, a[1] + (b[1] - a[1]) * t))
    return out


def eval_poly(D, geo, dom, K, f, P, cls, ctx):
    case = {'face': f, 'polygon': [list(p) for p in P], 'cls': cls}
    pa = abs(geo.signed_area2d(P))
    diam = max(math.hypot(P[i][0] - P[j][0], P[i][1] - P[j][1]) for i in range(len(P)) for j in range(i))
    tol = 1e-6 + 5e-14 / diam

    jumps = []

    def fn(s):
        pts = densify(dom, P, s)
        vs = [vec_of(D.inverse(q, f)) for q in pts]
        # continuity monitor: consecutive boundary samples (also the ones placed exactly ON seams and edges by the pre-splitting)
        # must map to neighbouring points: the map is smooth with a scale factor near K^0.5
        for i in range(len(pts)):
            j = (i + 1) % len(pts)
            step = math.hypot(pts[i][0] - pts[j][0], pts[i][1] - pts[j][1])
            gap = geo.ang(vs[i], vs[j])
            if gap > 4 * math.sqrt(K) * step + 1e-12 and len(jumps) < 3:
                jumps.append((s, pts[i], pts[j], gap, step))
        return abs(geo.laea_area(vs)) / (K * pa)
    ctx.case((f, tuple(P)))
    try:
        verdict, s, e, E = geo.decide_seq(fn, 4, 8192, tol)
    except Exception as ex:
        ctx.fail('raises', case, exc=repr(ex))
        return
    ctx.count('%s_%s' % (cls, verdict))
    ctx.count('size_%s' % ('small' if diam < 1e-2 else 'large'))
    if jumps:
        sj, p1, p2, gap, step = jumps[0]
        ctx.fail('image_discontinuity', case, points_per_edge=sj, at=[list(p1), list(p2)], image_gap_rad=gap, planar_step=step)
    if verdict == 'held':
        ctx.maxi('area_ratio_err_held', abs(e), case)
        ctx.maxi('points_per_edge_needed', s, case)
    elif verdict == 'violated':
        ctx.fail('area_ratio', case, rel_err=e, envelope=E, points_per_edge=s, tol=tol)
    else:
        ctx.count('inconclusive_polygons')
        ctx.note('inconclusive polygon %r err %r env %r' % (case, e, E))


def make_poly(rnd, dom, pent):
    """returns (polygon, class) with every vertex in the domain, or None"""
    width = 2 * 0.6180339887498949
    size = 10 ** rnd.uniform(-4, math.log10(0.5)) * width
    mode = rnd.random()
    i = rnd.randrange(5)
    v1, v2 = pent[i], pent[(i + 1) % 5]
    m = ((v1[0] + v2[0]) / 2, (v1[1] + v2[1]) / 2)
    if mode < 0.45:
        cls = 'anywhere'
        t = dom.tris[rnd.randrange(10)]
        w = [rnd.random() for _ in range(3)]
        s = sum(w)
        c = tuple(sum(w[k] / s * t[k][d] for k in range(3)) for d in range(2))
    elif mode < 0.6:
        cls = 'seam'
        u = rnd.random() * (2 if rnd.random() < 0.3 else 1)
        base = m if rnd.random() < 0.5 else v1
        c = (base[0] * u, base[1] * u)
    elif mode < 0.75:
        cls = 'edge'
        u = rnd.random()
        c = (v1[0] + (v2[0] - v1[0]) * u, v1[1] + (v2[1] - v1[1]) * u)
    elif mode < 0.87:
        cls = 'centre'
        c = (rnd.gauss(0, size / 4), rnd.gauss(0, size / 4))
    else:
        cls = 'vertex'
        c = (v1[0] * (1 - abs(rnd.gauss(0, size / 2))), v1[1] * (1 - abs(rnd.gauss(0, size / 2))))
    if rnd.random() < 0.15:
        # an edge grazing a special point (face centre, face vertex, edge midpoint) at a log-small distance, small polygons favoured
        cls = 'graze'
        P = rnd.choice(((0.0, 0.0), v1, m))
        size = 10 ** rnd.uniform(-4, -2) * width
        d = 10 ** rnd.uniform(-10, -3) * rnd.choice((-1, 1))
        th = rnd.uniform(0, 2 * math.pi)
        ux, uy = math.cos(th), math.sin(th)
        nx, ny = -uy, ux
        t1, t2 = rnd.uniform(0.2, 0.8) * size, rnd.uniform(0.2, 0.8) * size
        A = (P[0] + nx * d - ux * t1, P[1] + ny * d - uy * t1)
        B = (P[0] + nx * d + ux * t2, P[1] + ny * d + uy * t2)
        sgn = 1 if d >= 0 else -1
        h = rnd.uniform(0.3, 1.0) * size
        Cc = (P[0] + nx * (d + sgn * h) + ux * rnd.uniform(-0.3, 0.3) * size, P[1] + ny * (d + sgn * h) + uy * rnd.uniform(-0.3, 0.3) * size)
        Pq = [A, B, Cc]
        if not all(dom.inside(p) for p in densify(dom, Pq, 8)):
            return None
        return Pq, cls
    k = rnd.choice((3, 4))
    a0 = rnd.uniform(0, 2 * math.pi)
    P = []
    for j in range(k):
        a = a0 + 2 * math.pi * j / k + rnd.uniform(-0.3, 0.3)
        rr = size / 2 * rnd.uniform(0.5, 1.0)
        P.append((c[0] + rr * math.cos(a), c[1] + rr * math.sin(a)))
    if not all(dom.inside(p) for p in densify(dom, P, 8)):
        return None
    return P, cls


def run_shard(spec, ctx):
    import a5.core.cell as cellmod
    from a5.projections.dodecahedron import DodecahedronProjection
    from a5.core.tiling import get_face_vertices
    from rv import geo, probe
    probe.count_only([('a5.projections.dodecahedron', 'DodecahedronProjection.inverse')])
    pent = [tuple(v) for v in get_face_vertices().get_vertices()]
    if geo.signed_area2d(pent) < 0:
        pent = pent[::-1]
    dom = Domain(pent)
    K = (4 * math.pi / 12) / abs(geo.signed_area2d(pent))
    D = cellmod._dodecahedron if spec['shard'] % 2 == 0 else DodecahedronProjection()
    rnd = ctx.rnd
    done = 0
    tries = 0
    while done < spec['n'] and tries < 20 * spec['n']:
        tries += 1
        mp = make_poly(rnd, dom, pent)
        if mp is None:
            ctx.count('rejected_outside_domain')
            continue
        P, cls = mp
        f = rnd.randrange(12)
        eval_poly(D, geo, dom, K, f, P, cls, ctx)
        done += 1
    ctx.sample({'face': f, 'polygon': [list(p) for p in P], 'cls': cls})


def finalize(m, tier):
    inc = []
    for cls in ('anywhere', 'seam', 'edge', 'centre', 'vertex', 'graze'):
        if m['counters'].get(cls + '_held', 0) < 100:
            inc.append('class %s below floor' % cls)
    if m['counters'].get('inconclusive_polygons', 0) > 0.01 * max(1, m['evaluations']):
        inc.append('%d polygons did not converge' % m['counters'].get('inconclusive_polygons', 0))
    return {'inconclusive': inc}


def replay(f, ctx):
    import a5.core.cell as cellmod
    from a5.core.tiling import get_face_vertices
    from rv import geo
    c = f['case']
    pent = [tuple(v) for v in get_face_vertices().get_vertices()]
    if geo.signed_area2d(pent) < 0:
        pent = pent[::-1]
    K = (4 * math.pi / 12) / abs(geo.signed_area2d(pent))
    eval_poly(cellmod._dodecahedron, geo, Domain(pent), K, c['face'], [tuple(p) for p in c['polygon']], c.get('cls', 'replay'), ctx)
