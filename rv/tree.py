"""Set model of the cell hierarchy, built only from single-step observations of the real cell_to_parent.

The model's only constants are the arities 12 / 5 / 4. Everything else (which id is whose parent) is
observed from the implementation one step at a time and memoised.
"""


class Tree:
    def __init__(self, a5):
        self.a5 = a5
        self._parent = {}

    def parent(self, c):
        p = self._parent.get(c)
        if p is None:
            p = self.a5.cell_to_parent(c)
            if len(self._parent) < 2000000:
                self._parent[c] = p
        return p

    def path(self, c):
        """[c, parent(c), ..., 0]; raises RuntimeError if the chain does not reach the world cell in 40 steps"""
        out = [c]
        while c != 0:
            c = self.parent(c)
            out.append(c)
            if len(out) > 40:
                raise RuntimeError('ancestor chain does not terminate')
        return out

    def res(self, c):
        return len(self.path(c)) - 2

    @staticmethod
    def arity(parent_res):
        return 12 if parent_res == -1 else (5 if parent_res == 0 else 4)

    def is_ancestor(self, a, d):
        return a != d and a in self.path(d)

    def antichain(self, X):
        """drop duplicates and every cell that has a proper ancestor in X"""
        S = set(X)
        return {c for c in S if not any(p in S for p in self.path(c)[1:])}

    def canon(self, X):
        """the unique minimal antichain covering the same region as X"""
        S = self.antichain(X)
        by_res = {}
        for c in S:
            by_res.setdefault(self.res(c), set()).add(c)
        if not by_res:
            return set()
        r = max(by_res)
        while r >= 0:
            groups = {}
            for c in by_res.get(r, ()):
                groups.setdefault(self.parent(c), set()).add(c)
            for p, kids in groups.items():
                if len(kids) == self.arity(r - 1):
                    by_res[r] -= kids
                    by_res.setdefault(r - 1, set()).add(p)
            r -= 1
        out = set()
        for s in by_res.values():
            out |= s
        return out

    def expand(self, X, R):
        """explicit expansion to resolution R through the real cell_to_children (bounded use only)"""
        out = set()
        for c in set(X):
            out.update(self.a5.cell_to_children(c, R))
        return out
