"""Independent geometric oracle (stdlib only). Shares no code with a5.

Everything here works on the *authalic sphere*: a lon/lat pair published by the library is turned into
a unit vector with the exact closed-form WGS84 authalic latitude in a pole-stable arrangement.
"""
import math

F_WGS = 1 / 298.257223563
E2 = F_WGS * (2 - F_WGS)
E = math.sqrt(E2)
R_AUTH = 6371007.2
QP = (1 - E2) * (1 / (1 - E2) + math.atanh(E) / E)


# ------------------------------------------------------------------ authalic latitude, closed form
def auth_colat(c):
    """geodetic colatitude c (rad, from the nearer pole, 0..pi/2) -> authalic colatitude"""
    u = 2 * math.sin(c / 2) ** 2  # 1 - sin(phi)
    s = 1 - u
    d = u * (1 + E2 * s) / (1 - E2 * s * s) + (1 - E2) * math.atanh(E * u / (1 - E2 * s)) / E  # qp - q
    x = d / (2 * QP)
    if x > 1.0:
        x = 1.0
    return 2 * math.asin(math.sqrt(x))


def auth_lat(phi):
    """geodetic latitude (rad) -> authalic latitude (rad), exact closed form, odd by construction"""
    sgn = 1.0 if phi >= 0 else -1.0
    c = math.pi / 2 - abs(phi)
    if c < 0:
        c = 0.0
    return sgn * (math.pi / 2 - auth_colat(c))


def geo_colat_from_auth(ca):
    """inverse of auth_colat by bisection (70 steps): authalic colatitude -> geodetic colatitude"""
    lo, hi = 0.0, math.pi / 2
    for _ in range(70):
        mid = (lo + hi) / 2
        if auth_colat(mid) < ca:
            lo = mid
        else:
            hi = mid
    return (lo + hi) / 2


def ll_to_vec(lon, lat, authalic=True):
    """(lon, lat) degrees -> unit vector; pole-stable (colatitude from the nearer pole)"""
    sgn = 1.0 if lat >= 0 else -1.0
    c = math.radians(90.0 - abs(lat))
    if authalic:
        c = auth_colat(c)
    lo = math.radians(lon)
    s = math.sin(c)
    return (s * math.cos(lo), s * math.sin(lo), sgn * math.cos(c))


def vec_to_ll(v):
    """unit vector on the authalic sphere -> geodetic (lon, lat) degrees (bisection inverse)"""
    lon = math.degrees(math.atan2(v[1], v[0]))
    ca = math.atan2(math.hypot(v[0], v[1]), abs(v[2]))
    lat = 90 - math.degrees(geo_colat_from_auth(ca))
    return (lon, lat if v[2] >= 0 else -lat)


# ------------------------------------------------------------------ vectors
def dot(a, b):
    return a[0] * b[0] + a[1] * b[1] + a[2] * b[2]


def cross(a, b):
    return (a[1] * b[2] - a[2] * b[1], a[2] * b[0] - a[0] * b[2], a[0] * b[1] - a[1] * b[0])


def norm(a):
    return math.sqrt(dot(a, a))


def unit(a):
    n = norm(a)
    return (a[0] / n, a[1] / n, a[2] / n)


def add(a, b):
    return (a[0] + b[0], a[1] + b[1], a[2] + b[2])


def sub(a, b):
    return (a[0] - b[0], a[1] - b[1], a[2] - b[2])


def scale(a, k):
    return (a[0] * k, a[1] * k, a[2] * k)


def ang(a, b):
    """angle between unit vectors, stable for small angles"""
    return math.atan2(norm(cross(a, b)), dot(a, b))


def gc_dist(a_ll, b_ll):
    return ang(ll_to_vec(*a_ll), ll_to_vec(*b_ll))


def num_cells(r):
    return 12 if r == 0 else 60 * 4 ** (r - 1)


def width(r):
    """cell width in radians on the unit sphere = sqrt(area of a cell)"""
    return math.sqrt(4 * math.pi / num_cells(r))


def tangent_basis(c):
    ax = (1.0, 0.0, 0.0) if abs(c[0]) < 0.9 else (0.0, 1.0, 0.0)
    e1 = unit(cross(ax, c))
    e2 = cross(c, e1)
    return e1, e2


def gnomonic(c, e1, e2, p):
    d = dot(c, p)
    return (dot(e1, p) / d, dot(e2, p) / d)


def centroid(vs):
    s = [0.0, 0.0, 0.0]
    for v in vs:
        s[0] += v[0]
        s[1] += v[1]
        s[2] += v[2]
    return unit(s)


# ------------------------------------------------------------------ planar helpers
def signed_area2d(poly):
    a = 0.0
    n = len(poly)
    for i in range(n):
        x1, y1 = poly[i]
        x2, y2 = poly[(i + 1) % n]
        a += x1 * y2 - x2 * y1
    return a / 2


def seg_dist(q, a, b):
    dx, dy = b[0] - a[0], b[1] - a[1]
    L2 = dx * dx + dy * dy
    t = 0.0 if L2 == 0 else max(0.0, min(1.0, ((q[0] - a[0]) * dx + (q[1] - a[1]) * dy) / L2))
    return math.hypot(q[0] - a[0] - t * dx, q[1] - a[1] - t * dy)


def pip_signed(poly, p):
    """planar winding-number point-in-polygon; returns (inside, distance to the nearest chord)"""
    n = len(poly)
    wn = 0
    dmin = float('inf')
    px, py = p
    for i in range(n):
        x1, y1 = poly[i]
        x2, y2 = poly[(i + 1) % n]
        if y1 <= py:
            if y2 > py and (x2 - x1) * (py - y1) - (px - x1) * (y2 - y1) > 0:
                wn += 1
        else:
            if y2 <= py and (x2 - x1) * (py - y1) - (px - x1) * (y2 - y1) < 0:
                wn -= 1
        d = seg_dist(p, (x1, y1), (x2, y2))
        if d < dmin:
            dmin = d
    return wn != 0, dmin


def _orient(a, b, c):
    return (b[0] - a[0]) * (c[1] - a[1]) - (b[1] - a[1]) * (c[0] - a[0])


def segments_cross(p1, p2, p3, p4):
    """proper intersection of open segments p1p2 and p3p4"""
    d1 = _orient(p3, p4, p1)
    d2 = _orient(p3, p4, p2)
    d3 = _orient(p1, p2, p3)
    d4 = _orient(p1, p2, p4)
    return ((d1 > 0) != (d2 > 0)) and ((d3 > 0) != (d4 > 0)) and d1 != 0 and d2 != 0 and d3 != 0 and d4 != 0


def is_simple(poly):
    """no two non-adjacent edges of the closed polygon properly intersect (O(n^2))"""
    n = len(poly)
    for i in range(n):
        a1, a2 = poly[i], poly[(i + 1) % n]
        for j in range(i + 2, n):
            if i == 0 and j == n - 1:
                continue
            if segments_cross(a1, a2, poly[j], poly[(j + 1) % n]):
                return False
    return True


# ------------------------------------------------------------------ ring oracles
def ring_plane(ring_ll, authalic=False):
    """open ring of (lon, lat) -> (centroid c, e1, e2, gnomonic polygon, vectors)"""
    vs = [ll_to_vec(lo, la, authalic) for lo, la in ring_ll]
    c = centroid(vs)
    e1, e2 = tangent_basis(c)
    poly = [gnomonic(c, e1, e2, v) for v in vs]
    return c, e1, e2, poly, vs


def enclosed(boundary_fn, p, r, k0=None, kmax=256):
    """Sag-aware adaptive containment of point p (lon, lat) in a cell at resolution r.

    boundary_fn(k) must return the *open* ring at k segments per edge, first vertex a corner.
    returns (verdict in {'in','out','edge','degenerate'}, margin in cell widths, k used)
    Containment is topological: geodetic colatitudes are used directly (monotone map of latitude).
    """
    w = width(r)
    floor = max(1e-9 * w, 1e-13)
    k = k0 or (2 if r >= 8 else max(4, 2 ** (7 - r)))
    while True:
        ring2 = boundary_fn(2 * k)
        c, e1, e2, poly2, _ = ring_plane(ring2)
        if abs(signed_area2d(poly2)) == 0:
            return 'degenerate', None, 2 * k
        pv = ll_to_vec(p[0], p[1], False)
        if dot(pv, c) <= 0.05:
            return 'out', -9.0, 2 * k
        sag = 0.0
        n2 = len(poly2)
        for i in range(1, n2, 2):
            sag = max(sag, seg_dist(poly2[i], poly2[i - 1], poly2[(i + 1) % n2]))
        q = gnomonic(c, e1, e2, pv)
        inside, d = pip_signed(poly2, q)
        tol = 4 * sag + floor
        if d > tol:
            return ('in' if inside else 'out'), (d if inside else -d) / w, 2 * k
        if d <= floor or 40 * sag < floor or 2 * k >= kmax:
            # refinement only shrinks the sag part of the tolerance: nothing more to gain
            return 'edge', (d if inside else -d) / w, 2 * k
        k *= 2


def laea_area(vs):
    """area of the polygon with unit-vector vertices vs in the Lambert azimuthal equal-area plane at the
    centroid (exact for the polygon whose edges are straight in that plane; converges to the region
    bounded by the true curve as vertices are added)"""
    c = centroid(vs)
    e1, e2 = tangent_basis(c)
    poly = []
    for v in vs:
        # chord vector d = v - c has |d| = 2 sin(theta/2) = LAEA radius; direction = tangent direction
        x, y = dot(e1, v), dot(e2, v)
        h = math.hypot(x, y)
        if h == 0:
            poly.append((0.0, 0.0))
            continue
        rr = norm(sub(v, c))
        poly.append((x / h * rr, y / h * rr))
    return signed_area2d(poly)


def excess_area(vs):
    """exact signed area of the spherical polygon with great-circle edges (fan of spherical excesses
    from the first vertex): 2 atan2(a.(b x c), 1 + a.b + b.c + c.a)"""
    a = vs[0]
    tot = 0.0
    for i in range(1, len(vs) - 1):
        b, c = vs[i], vs[i + 1]
        tot += 2 * math.atan2(dot(a, cross(b, c)), 1 + dot(a, b) + dot(b, c) + dot(c, a))
    return tot


def decide_seq(f, s0, smax, tol):
    """Envelope rule: f(s) -> ratio estimate; plain doubling with explicit envelope bound.
    returns (verdict in {'held','violated','inconclusive'}, s, est-1, E)"""
    P = []
    D = []
    s = s0
    while True:
        P.append(f(s))
        if len(P) >= 2:
            D.append(abs(P[-1] - P[-2]))
        if len(D) >= 3:
            Ev = max(D[-1], D[-2] / 4, D[-3] / 16)
            e = P[-1] - 1
            if abs(e) + 4 * Ev <= tol:
                return 'held', s, e, Ev
            if abs(e) > tol + 4 * Ev:
                return 'violated', s, e, Ev
        if s >= smax:
            Ev = max(D[-1], D[-2] / 4, D[-3] / 16) if len(D) >= 3 else None
            return 'inconclusive', s, P[-1] - 1, Ev
        s *= 2


# ------------------------------------------------------------------ self-test
def _mp():
    """zip-import mpmath from the offline wheelhouse; None if unavailable"""
    import glob
    import sys
    try:
        import mpmath  # noqa
        return mpmath
    except Exception:
        pass
    for whl in glob.glob('/opt/veriftools/wheels/mpmath-*.whl'):
        sys.path.append(whl)
        try:
            import mpmath  # noqa
            return mpmath
        except Exception:
            sys.path.remove(whl)
    return None


def selftest(n=400, seed=1):
    """returns dict(ok=bool, detail=...). A failing self-test makes a check 'broken' (exit 2)."""
    import random
    rnd = random.Random(seed)
    out = {'ok': True, 'mpmath': False}
    mp = _mp()
    worst = 0.0
    if mp is not None:
        out['mpmath'] = True
        mp.mp.dps = 50
        e = mp.sqrt(mp.mpf(E2))
        e2 = mp.mpf(E2)

        def q(s):
            return (1 - e2) * (s / (1 - e2 * s * s) - mp.log((1 - e * s) / (1 + e * s)) / (2 * e))
        qp = q(mp.mpf(1))
        for i in range(n):
            c = 10 ** rnd.uniform(-14, 0) * (math.pi / 2) if i % 2 else rnd.uniform(0, math.pi / 2)
            c = min(c, math.pi / 2)
            mc = mp.mpf(c)
            beta = mp.asin(q(mp.cos(mc)) / qp)  # sin(phi) = cos(colat)
            ref = mp.pi / 2 - beta
            got = auth_colat(c)
            if ref > 0:
                rel = abs((mp.mpf(got) - ref) / ref)
                worst = max(worst, float(rel))
        out['authalic_rel_err'] = worst
        if worst > 1e-13:
            out['ok'] = False
    # spherical cap polygon: area -> 2 pi (1 - cos a)
    a = 0.3
    axis = unit((0.3, -0.5, 0.8))
    e1, e2v = tangent_basis(axis)
    N = 4096
    vs = [unit(add(scale(axis, math.cos(a)), add(scale(e1, math.sin(a) * math.cos(2 * math.pi * i / N)),
                                                  scale(e2v, math.sin(a) * math.sin(2 * math.pi * i / N)))))
          for i in range(N)]
    cap = 2 * math.pi * (1 - math.cos(a))
    la = laea_area(vs) / cap
    ex = excess_area(vs) / cap
    out['laea_cap'] = la - 1
    out['excess_cap'] = ex - 1
    if abs(la - 1) > 1e-5 or abs(ex - 1) > 1e-5:
        out['ok'] = False
    # octant triangle: excess area = pi/2
    oct_ = excess_area([(1, 0, 0), (0, 1, 0), (0, 0, 1)])
    if abs(oct_ - math.pi / 2) > 1e-14:
        out['ok'] = False
    # point in ring
    ring = [(10, 10), (20, 10), (20, 20), (10, 20)]
    c, b1, b2, poly, _ = ring_plane(ring)
    ins, d = pip_signed(poly, gnomonic(c, b1, b2, ll_to_vec(15, 15, False)))
    outs, d2 = pip_signed(poly, gnomonic(c, b1, b2, ll_to_vec(25, 15, False)))
    if not ins or outs or signed_area2d(poly) <= 0:
        out['ok'] = False
    if not is_simple(poly) or is_simple([(0, 0), (1, 1), (1, 0), (0, 1)]):
        out['ok'] = False
    # vec_to_ll inverse
    for _ in range(50):
        lon, lat = rnd.uniform(-180, 180), rnd.uniform(-90, 90)
        lo2, la2 = vec_to_ll(ll_to_vec(lon, lat))
        if abs(la2 - lat) > 1e-9 or abs(((lo2 - lon) + 180) % 360 - 180) > 1e-9:
            out['ok'] = False
    return out


if __name__ == '__main__':
    print(selftest())
