"""Fresh-process oracle: one API call per new interpreter, canonical (bit-exact) encoding of the result."""
import json
import os
import subprocess

RUNNER = r'''
import sys, json
import a5
def enc(x):
    if isinstance(x, float): return x.hex()
    if isinstance(x, (list, tuple)): return [enc(y) for y in x]
    if isinstance(x, dict): return {k: enc(v) for k, v in sorted(x.items())}
    return x
def dec_args(f, a):
    if f == 'lonlat_to_cell': return [tuple(a[0]), a[1]]
    return a
calls = json.load(sys.stdin); out = []
for f, a in calls:
    try:
        out.append(['ok', enc(getattr(a5, f)(*dec_args(f, a)))])
    except Exception as e:
        out.append(['exc', type(e).__name__ + ': ' + str(e)])
json.dump({'file': a5.__file__, 'out': out}, sys.stdout)
'''


def enc(x):
    if isinstance(x, float):
        return x.hex()
    if isinstance(x, (list, tuple)):
        return [enc(y) for y in x]
    if isinstance(x, dict):
        return {k: enc(v) for k, v in sorted(x.items())}
    return x


def run_calls(calls, repo, pyc_dir=None, timeout=120):
    """execute the list of (function name, args) in ONE new interpreter, in order; returns list of ['ok', value] / ['exc', text]"""
    env = dict(os.environ)
    env['PYTHONPATH'] = repo
    env['PYTHONHASHSEED'] = '0'
    env['PYTHONDONTWRITEBYTECODE'] = '1'
    if pyc_dir:
        env['PYTHONPYCACHEPREFIX'] = pyc_dir
    p = subprocess.run(['/venv/bin/python', '-B', '-c', RUNNER], input=json.dumps(calls), capture_output=True, text=True,
                       timeout=timeout, env=env)
    if p.returncode != 0:
        raise RuntimeError('fresh interpreter failed: ' + p.stderr[-800:])
    d = json.loads(p.stdout)
    if not os.path.realpath(d['file']).startswith(os.path.realpath(repo) + os.sep):
        raise RuntimeError('fresh interpreter imported a5 from ' + d['file'])
    return d['out']
