#!/usr/bin/env python3
"""Self-validation of the checks (not a registered check).

  ./selftest seeded [name ...] [--tier quick|thorough] [--all-checks] [--tests]
        for every /verif/seeded/<name>/ (patch.diff + meta.json): copy /repo's a5 to a scratch dir outside /repo and /verif,
        apply the patch, run the check(s) of the property it breaks with VERIF_REPO pointing at the copy, delete the copy.
        Expected: exit 1 (VIOLATION). Results -> seeded/RESULTS.json
  ./selftest pinned [ids]     run checks against the pre-repair tree (repo commit 19959fd): every repaired defect must be reported
  ./selftest quiet [--tier T] [--seeds 1,2,3] [ids]   every check on the unchanged tree for several seeds; any VIOLATION / INCONCLUSIVE fails
"""
import json
import os
import shutil
import subprocess
import sys
import tempfile
import time

V = os.path.dirname(os.path.dirname(os.path.abspath(__file__)))
IDS = ['C%02d' % i for i in range(1, 21)]


def scratch_copy(patch=None, rev=None):
    d = tempfile.mkdtemp(prefix='rv_selftest_')
    if rev:
        subprocess.run('git -C /repo archive %s a5 | tar -x -C %s' % (rev, d), shell=True, check=True)
    else:
        shutil.copytree('/repo/a5', os.path.join(d, 'a5'), ignore=shutil.ignore_patterns('__pycache__'))
        shutil.copytree('/repo/tests', os.path.join(d, 'tests'), ignore=shutil.ignore_patterns('__pycache__'))
        for f in ('pyproject.toml',):
            if os.path.exists('/repo/' + f):
                shutil.copy('/repo/' + f, d)
    if patch:
        p = subprocess.run(['git', 'apply', '--whitespace=nowarn', os.path.abspath(patch)], cwd=d, capture_output=True, text=True)
        if p.returncode != 0:
            shutil.rmtree(d, ignore_errors=True)
            raise RuntimeError('patch does not apply: ' + p.stderr[-500:])
    return d


def run_check(pid, tier, repo, seed=1, evdir=None):
    env = dict(os.environ, VERIF_REPO=repo, VERIF_SEED=str(seed))
    tmp = evdir or tempfile.mkdtemp(prefix='rv_selftest_ev_')
    if repo != '/repo':
        env['VERIF_EVIDENCE_DIR'] = tmp
        env['VERIF_REPLAY_DIR'] = os.path.join(tmp, 'replay')
    t0 = time.time()
    p = subprocess.run([os.path.join(V, 'vcheck'), pid, tier], env=env, capture_output=True, text=True)
    out = p.stdout
    kinds = sorted({ln.split('kind=')[1].split()[0] for ln in out.splitlines() if ln.startswith('VIOLATION') and 'kind=' in ln})
    if repo != '/repo' and not evdir:
        shutil.rmtree(tmp, ignore_errors=True)
    return {'rc': p.returncode, 'wall': round(time.time() - t0, 1), 'kinds': kinds,
            'tail': [l[:300] for l in out.splitlines() if l.startswith(('VIOLATION', 'INCONCLUSIVE', 'KNOWN', 'HELD'))][:4],
            'stderr': p.stderr[-300:]}


def cmd_seeded(args):
    tier = 'quick'
    allc = '--all-checks' in args
    tests = '--tests' in args
    if '--tier' in args:
        tier = args[args.index('--tier') + 1]
    names = [a for a in args if not a.startswith('--') and a not in ('quick', 'thorough')]
    sd = os.path.join(V, 'mutants' if '--own' in args else 'seeded')
    names = names or sorted(n for n in os.listdir(sd) if os.path.isdir(os.path.join(sd, n)))
    respath = os.path.join(sd, 'RESULTS.json')
    results = json.load(open(respath)) if os.path.exists(respath) else {}
    bad = 0
    for n in names:
        d = os.path.join(sd, n)
        meta = json.load(open(os.path.join(d, 'meta.json')))
        try:
            repo = scratch_copy(os.path.join(d, 'patch.diff'))
        except RuntimeError as e:
            print(n, 'SKIP', e)
            continue
        try:
            entry = results.setdefault(n, {'property': meta['property']})
            if tests:
                p = subprocess.run(['/venv/bin/python', '-m', 'pytest', '-q', '-p', 'no:cacheprovider', '-x'], cwd=repo,
                                   env=dict(os.environ, PYTHONPATH=repo), capture_output=True, text=True)
                entry['repo_tests'] = p.stdout.strip().splitlines()[-1] if p.stdout.strip() else p.stderr[-200:]
            for pid in (IDS if allc else [meta['property']] + meta.get('also_check', [])):
                r = run_check(pid, tier, repo)
                entry.setdefault('checks', {})['%s/%s' % (pid, tier)] = r
                caught = r['rc'] == 1
                print('%-28s %s %-8s rc=%d %5.1fs %s' % (n, pid, tier, r['rc'], r['wall'], 'CAUGHT ' + ','.join(r['kinds']) if caught else 'MISSED ' + ' '.join(r['tail'])[:200]))
                if pid == meta['property'] and not caught:
                    bad += 1
        finally:
            shutil.rmtree(repo, ignore_errors=True)
        json.dump(results, open(respath, 'w'), indent=1, sort_keys=True)
    return 1 if bad else 0


def cmd_pinned(args):
    ids = [a for a in args if a.upper() in IDS] or ['C01', 'C02', 'C03', 'C04', 'C07', 'C09', 'C11', 'C12', 'C13', 'C16']
    repo = scratch_copy(rev='19959fd')
    bad = 0
    try:
        for pid in ids:
            r = run_check(pid.upper(), 'quick', repo)
            print('%s pinned tree rc=%d %5.1fs %s' % (pid, r['rc'], r['wall'], ','.join(r['kinds'])))
            bad += r['rc'] != 1
    finally:
        shutil.rmtree(repo, ignore_errors=True)
    return 1 if bad else 0


def cmd_quiet(args):
    tier = args[args.index('--tier') + 1] if '--tier' in args else 'quick'
    seeds = [int(x) for x in args[args.index('--seeds') + 1].split(',')] if '--seeds' in args else [1, 2, 3, 4, 5]
    ids = [a.upper() for a in args if a.upper() in IDS] or IDS
    bad = 0
    evdir = tempfile.mkdtemp(prefix='rv_quiet_ev_')
    try:
        for seed in seeds:
            for pid in ids:
                env = dict(os.environ, VERIF_SEED=str(seed), VERIF_EVIDENCE_DIR=evdir, VERIF_REPLAY_DIR=os.path.join(V, 'replay'))
                t0 = time.time()
                p = subprocess.run([os.path.join(V, 'vcheck'), pid, tier], env=env, capture_output=True, text=True)
                line = [l for l in p.stdout.splitlines() if l.startswith(('VIOLATION', 'INCONCLUSIVE'))]
                print('%s %s seed=%d rc=%d %.1fs %s' % (pid, tier, seed, p.returncode, time.time() - t0, ' | '.join(line)[:400]), flush=True)
                bad += p.returncode != 0
    finally:
        shutil.rmtree(evdir, ignore_errors=True)
    print('quiet sweep:', 'CLEAN' if not bad else '%d runs raised an alarm' % bad)
    return 1 if bad else 0


if __name__ == '__main__':
    a = sys.argv[1:]
    sys.exit({'seeded': cmd_seeded, 'pinned': cmd_pinned, 'quiet': cmd_quiet}[a[0]](a[1:]))
