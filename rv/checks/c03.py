"""C03 - cells of one resolution tile the globe: no gaps, no overlaps."""
import math

ID = 'C03'
NEEDS_GEO_SELFTEST = True
LEDGER_FILES = ['a5/core/cell.py', 'a5/core/tiling.py', 'a5/geometry/pentagon.py', 'a5/projections/dodecahedron.py',
                'a5/projections/polyhedral.py', 'a5/projections/crs.py', 'a5/core/origin.py']
MUST_ENTER = [('a5/core/cell.py', 'cell_to_boundary'), ('a5/core/cell.py', 'lonlat_to_cell'), ('a5/core/tiling.py', 'get_pentagon_vertices'),
              ('a5/projections/dodecahedron.py', '_get_reflected_face_triangle'), ('a5/projections/dodecahedron.py', 'should_reflect')]
RULE = ('(i) complete manifold certificate per (level r, segments k): all rings of the level (open, k vertices per edge), vertices '
        'clustered in 3-D (1e-9), every directed edge exactly once and paired with its reverse, no degenerate edge, V-E+F=2, sum of exact '
        'spherical-excess areas = 4 pi (1e-11 rel); quick: r<=4 at k in {1,2,3} and r=5 at k=1; thorough: r<=6 all k, r=7 at k=1. '
        '(ii) local certificate for cells at r in 5..29 from polar / frame / antimeridian / uniform / pattern generators: for each of the 5 '
        'edges the cell lonlat_to_cell returns for a point 5% beyond the edge midpoint must own the reversed edge vertex for vertex '
        '(tolerance max(1e-9 w, 1e-13 rad)), the five neighbours are distinct and lie on the far side. distinct = distinct (r,k,cell) or '
        '(cell, edge); non-trivial = every cell/edge examined')
ASSUMPTIONS = ['complete enumeration stops at level 5 (quick) / 7 (thorough); deeper levels are certified locally per cell and its neighbours']


def plan(tier, seed):
    specs = []
    if tier == 'quick':
        lv = [(r, k) for r in range(0, 5) for k in (1, 2, 3)] + [(5, 1)] + [(2, 6), (2, 7), (3, 5), (1, 10), (2, 13)]
    else:
        lv = [(r, k) for r in range(0, 7) for k in (1, 2, 3)] + [(7, 1)] + [(r, k) for r in (1, 2, 3, 4) for k in (5, 6, 7, 10, 13, 14, 15, 16)]
    lv.sort(key=lambda x: -x[1] * 4 ** x[0])
    for r, k in lv:
        specs.append({'part': 'level', 'r': r, 'k': k})
    for i in range(6 if tier == 'quick' else 24):
        specs.append({'part': 'local', 'n': 600 if tier == 'quick' else 4200})
    return specs


class Cluster3:
    def __init__(self, eps):
        self.eps = eps
        self.ids = {}
        self.rep = []
        self.maxdiam = 0.0

    def id(self, v):
        e = self.eps
        kx, ky, kz = round(v[0] / e), round(v[1] / e), round(v[2] / e)
        i = self.ids.get((kx, ky, kz))
        if i is None:
            for dx in (0, -1, 1):
                for dy in (0, -1, 1):
                    for dz in (0, -1, 1):
                        i = self.ids.get((kx + dx, ky + dy, kz + dz))
                        if i is not None:
                            break
                    if i is not None:
                        break
                if i is not None:
                    break
        if i is None:
            i = len(self.rep)
            self.ids[(kx, ky, kz)] = i
            self.rep.append(v)
            return i
        r = self.rep[i]
        d = math.sqrt((r[0] - v[0]) ** 2 + (r[1] - v[1]) ** 2 + (r[2] - v[2]) ** 2)
        if d > self.maxdiam:
            self.maxdiam = d
        return i


def level_certificate(a5, geo, r, k, ctx):
    cert = {'r': r, 'k': k, 'cert': True}
    cells = a5.cell_to_children(0, r)
    cl = Cluster3(1e-9)
    edges = {}
    tot = 0.0
    for c in cells:
        ctx.case((r, k, c))
        try:
            ring = a5.cell_to_boundary(c, {'segments': k, 'closed_ring': False})
        except Exception as e:
            ctx.fail('boundary_raises', {'r': r, 'k': k, 'cell': c}, exc=repr(e))
            continue
        vs = [geo.ll_to_vec(lo, la) for lo, la in ring]
        tot += geo.excess_area(vs)
        ids = [cl.id(v) for v in vs]
        n = len(ids)
        for i in range(n):
            e = (ids[i], ids[(i + 1) % n])
            if e[0] == e[1]:
                ctx.fail('degenerate_edge', {'r': r, 'k': k, 'cell': c})
            elif e in edges:
                ctx.fail('directed_edge_twice', {'r': r, 'k': k, 'cell': c}, other=edges[e])
            else:
                edges[e] = c
    unpaired = [(e, c) for e, c in edges.items() if (e[1], e[0]) not in edges]
    for e, c in unpaired[:10]:
        ctx.fail('edge_without_reverse', {'r': r, 'k': k, 'cell': c}, n_unpaired=len(unpaired))
    V, E, F = len(cl.rep), len(edges) // 2, len(cells)
    if not unpaired and V - E + F != 2:
        ctx.fail('euler_characteristic', cert, V=V, E=E, F=F)
    rel = abs(tot / (4 * math.pi) - 1)
    ctx.maxi('area_sum_rel_err', rel, cert)
    ctx.maxi('cluster_diameter', cl.maxdiam, cert)
    if rel > 1e-11:
        ctx.fail('area_sum', cert, total_over_4pi=tot / (4 * math.pi))
    ctx.count('certificates')
    ctx.count('certified_cells', F)
    ctx.sample({'r': r, 'k': k, 'V': V, 'E': E, 'F': F, 'area_sum_rel_err': rel, 'cluster_diameter': cl.maxdiam})


def local_certificate(a5, geo, c, r, cls, ctx, k=2):
    case = {'cell': c, 'r': r, 'cls': cls}
    w = geo.width(r)
    tol = max(1e-9 * w, 1e-13)
    try:
        ring = a5.cell_to_boundary(c, {'segments': k, 'closed_ring': False})
    except Exception as e:
        ctx.fail('boundary_raises', case, exc=repr(e))
        return
    n = len(ring)
    if n != 5 * k:
        ctx.fail('ring_shape', case, n=n)
        return
    vs = [geo.ll_to_vec(lo, la) for lo, la in ring]
    cen = geo.centroid(vs)
    neigh = []
    for i in range(5):
        i0 = (k - 1) + i * k
        poly = [vs[(i0 + j) % n] for j in range(k + 1)]
        mid = poly[k // 2] if k % 2 == 0 else geo.unit(geo.add(poly[k // 2], poly[k // 2 + 1]))
        out = geo.sub(mid, cen)
        q = geo.unit(geo.add(mid, geo.scale(out, 0.05)))
        ecase = dict(case, edge=i)
        ctx.case((c, i))
        try:
            nb = a5.lonlat_to_cell(geo.vec_to_ll(q), r)
            nring = a5.cell_to_boundary(nb, {'segments': k, 'closed_ring': False})
        except Exception as e:
            ctx.fail('neighbour_raises', ecase, exc=repr(e))
            continue
        if nb == c:
            ctx.fail('same_cell_beyond_edge', ecase)
            continue
        neigh.append(nb)
        nvs = [geo.ll_to_vec(lo, la) for lo, la in nring]
        m = len(nvs)
        # the neighbour must carry poly reversed: poly[k], poly[k-1], ..., poly[0] consecutively
        best = None
        for j in range(m):
            d = max(geo.ang(nvs[(j + t) % m], poly[k - t]) for t in range(k + 1))
            if best is None or d < best:
                best = d
        ctx.maxi('edge_mismatch_w', best / w, ecase)
        ctx.maxi('edge_mismatch_rad', best, ecase)
        if best > tol:
            ctx.fail('edge_mismatch', ecase, neighbour=nb, mismatch_w=best / w, mismatch_rad=best)
        ncen = geo.centroid(nvs)
        if geo.dot(geo.sub(ncen, mid), out) <= 0:
            ctx.fail('neighbour_on_wrong_side', ecase, neighbour=nb)
    if len(neigh) == 5 and len(set(neigh)) != 5:
        ctx.fail('neighbours_not_distinct', case, neighbours=neigh)
    ctx.count('local_%s_%s' % (cls, 'lo' if r < 10 else ('mid' if r < 20 else 'hi')))


def run_shard(spec, ctx):
    import a5
    from rv import geo, gen, probe
    probe.count_only([('a5.core.cell', 'cell_to_boundary'), ('a5.core.cell', 'lonlat_to_cell')])
    if spec['part'] == 'level':
        level_certificate(a5, geo, spec['r'], spec['k'], ctx)
        return
    rnd = ctx.rnd
    from rv import branch
    bpts = branch.hostile_points(a5, rnd, 120, 100, 60)
    ctx.counters['branch_boundary_points'] = len(bpts)
    for n in range(spec['n']):
        kind = ('polar', 'frame', 'antimeridian', 'uniform', 'pattern', 'edge', 'seam', 'equator', 'branch')[n % 9]
        r = rnd.randint(5, 29)
        try:
            if kind == 'branch':
                if not bpts:
                    continue
                r = rnd.choice((29, 28, 27, 26, 25, 24, rnd.randint(8, 23)))
                c = a5.lonlat_to_cell(branch.near(rnd, bpts[rnd.randrange(len(bpts))][0], geo.width(r)), r)
            elif kind == 'pattern':
                c = gen.cell_by_path(a5, rnd.randrange(12), rnd.randrange(5), gen.digits_pattern(rnd, r - 1))
            else:
                p, _ = gen.point(rnd, a5, kind, r)
                c = a5.lonlat_to_cell(p, r)
        except Exception as e:
            ctx.note('locating call raised %r' % (e,))
            continue
        local_certificate(a5, geo, c, r, kind, ctx, k=rnd.choice((1, 2, 2, 3, 3, 5, 6, 7, 10, 13, 16)))
    ctx.sample({'cell': c, 'r': r, 'cls': kind})


def finalize(m, tier):
    inc = []
    want = 21 if tier == 'quick' else 54
    if m['counters'].get('certificates', 0) != want:
        inc.append('only %d of %d level certificates completed' % (m['counters'].get('certificates', 0), want))
    for k in ('local_polar_hi', 'local_frame_hi', 'local_antimeridian_hi', 'local_uniform_hi', 'local_pattern_hi', 'local_edge_hi', 'local_seam_hi'):
        if m['counters'].get(k, 0) < 50:
            inc.append('class %s below floor' % k)
    return {'inconclusive': inc, 'explanation': 'levels 0..%d are certified completely, deeper levels locally' % (5 if tier == 'quick' else 7)}


def replay(f, ctx):
    import a5
    from rv import geo
    c = f['case']
    if c.get('cert') or 'k' in c:
        level_certificate(a5, geo, c['r'], c['k'], ctx)
    else:
        for k in (1, 2, 3):
            local_certificate(a5, geo, c['cell'], c['r'], c.get('cls', 'replay'), ctx, k=k)
