#!/usr/bin/env python3
"""Regenerates MANIFEST.json from the table below (checks whose module exists are claimed)."""
import json, os
V = os.path.dirname(os.path.dirname(os.path.abspath(__file__)))
T = {
 'C01': ('geo-monitor', 'post-condition monitor on lonlat_to_cell with an independent spherical point-in-ring oracle under hostile point workloads', '5/C01'),
 'C02': ('geo-monitor', 'round-trip and range monitor on cell_to_lonlat / lonlat_to_cell over exhaustive low levels and structured deep ids', '5/C02'),
 'C03': ('geo-monitor', 'manifold certificate (edge pairing, Euler characteristic, area sum) over complete levels plus local edge/neighbour certificates observed through cell_to_boundary and lonlat_to_cell', '5/C03'),
 'C04': ('geo-monitor', 'area monitor: converged equal-area-plane area of observed boundary rings against 4*pi/N with an explicit convergence envelope', '5/C04'),
 'C05': ('id-monitor', 'post-condition monitors on serialize/deserialize/get_resolution with a run-wide id->cell collision table, exhaustive low levels, ambient probes', '5/C05'),
 'C06': ('id-monitor', 'hierarchy monitor: children/parent post-conditions against exhaustive level enumerations and range probing', '5/C06'),
 'C07': ('geo-monitor', 'drift monitor on random and adversarial (beam-search) descent paths with great-circle distances from an independent oracle', '5/C07'),
 'C08': ('id-monitor', 'reference-model monitor: compact output compared with a set model of the hierarchy over exhaustively enumerated antichains and random multisets', '5/C08'),
 'C09': ('id-monitor', 'reference-model monitor: compact output compared with the canonical minimal antichain, order/duplication/idempotence checks', '5/C09'),
 'C10': ('id-monitor', 'block-structure monitor on uncompact against the hierarchy model, argument-immutability snapshots', '5/C10'),
 'C11': ('geo-monitor', 'distance monitors on point->cell centre and centre->corner distances with an independent authalic great-circle oracle', '5/C11'),
 'C12': ('geo-monitor', 'ring well-formedness monitor over all option combinations (count, closure, orientation, simplicity, longitude continuity)', '5/C12'),
 'C13': ('geo-monitor', 'round-trip monitor on DodecahedronProjection.forward/inverse on nearest and adjacent faces, barycentric domain sampling', '5/C13'),
 'C14': ('geo-monitor', 'area-ratio monitor on DodecahedronProjection.inverse for densified planar polygons with a convergence envelope', '5/C14'),
 'C15': ('geo-monitor', 'reference-function monitor: authalic conversion against the exact closed form (validated against 50-digit mpmath each run)', '5/C15'),
 'C16': ('scheduler', 'deterministic preemption injection via sys.monitoring (context bound 2, warm / cold / cache-pressure states), two-thread hand-over schedules (bound 3) and real-thread stress, results compared with single-threaded baselines', '5/C16'),
 'C17': ('history-monitor', 'history monitor: every call in random histories compared bit-for-bit with a fresh-interpreter oracle; argument snapshots; state rewinds', '5/C17'),
 'C18': ('id-monitor', 'round-trip and planar-manifold monitors on s_to_anchor / ij_to_s / get_pentagon_vertices over exhaustive low levels and digit-pattern-directed deep indices', '5/C18'),
 'C19': ('id-monitor', 'round-trip / canonical-form monitor on hex conversion, exhaustive 16-bit-lane family plus structured and random values', '5/C19'),
 'C20': ('id-monitor', 'complete enumeration of the finite metadata domain against observed hierarchy sizes', '5/C20'),
}
LEVEL_TEXT = {'C01': 'held on every point this run executed: ~90k judged points (quick) / 2.6M (thorough) over a dozen hostile classes x 30 resolutions (including points on the internal branch boundaries of the projection code, located at run time, and a 160k-lookup corner scan selected through inner probes), each judged by an independent spherical point-in-ring oracle with an explicit tolerance band; an infinite input domain cannot be enumerated, so exploration aimed at the thin sets (poles, frame points, antimeridian, cell corners, huge longitudes) is the honest level', 'C02': 'all ids of levels 0..5 (quick) / 0..7 (thorough) are enumerated completely, deeper levels by structured digit patterns, same-index ladders over consecutive resolutions and located cells; 7e17 ids cannot be enumerated', 'C03': 'complete manifold certificate (edge pairing, Euler characteristic, area sum) for every level up to 5 (quick) / 7 (thorough), local edge/neighbour certificates for sampled deep cells; above level 7 the certificate is per cell, not global', 'C04': 'converged area with an explicit error envelope for all cells of levels 0..3 (quick) / 0..5 (thorough) and stratified deep samples; three-valued verdict per cell (held / violated / not converged)', 'C05': "complete enumeration of ids for levels 0..6 (quick) / 0..8 (thorough), structured sampling of S at every (face, segment, resolution 0..30), ambient post-conditions inside other API calls; the property's 'S symbolic' quantifier is a bit-vector proof obligation outside this technique and is approximated by sampling aimed at bit positions", 'C06': 'complete levels 0..6 (quick) / 0..8 (thorough) with every (ancestor level, descendant level) pair; deep levels by random triples and range probing around child runs; out-of-order requests alone and directly after related valid requests', 'C07': 'random and adversarial (beam-search) descent paths plus the exact nesting clause for all 12 faces x 5 segments; all 4^12 paths per cell cannot be enumerated, the beam search is the worst-case finder', 'C08': 'exhaustive antichains of a seed-chosen bounded sub-hierarchy spanning every aperture (868k quick / 18.5M thorough), all orders of small cases, random large sets, each compared with a set model', 'C09': 'same exhaustive family as C08 restricted to antichains, compared with the canonical minimal antichain of the set model, plus order/duplication/idempotence checks', 'C10': 'random lists over the whole resolution range with bounded expansion, block-by-block comparison with the hierarchy model and argument snapshots; children lists with local edits to order and multiplicity; returned lists edited and the call repeated', 'C11': 'distance bounds observed on ~100k (quick) / 1.5M+ (thorough) hostile points and on all cells of low levels plus structured deep cells, distances from an independent authalic oracle', 'C12': 'all cells of levels 0..3 (quick) / 0..5 (thorough) x 24 option combinations, plus antimeridian / polar / frame / pattern cells at every deeper level; a quarter of the returned rings edited in place and the call repeated', 'C13': 'both round-trip directions on 288k (quick) / 5M (thorough) vectors and face-plane points sampled inside the stated domain (barycentric, log-small weights), singleton and fresh instances', 'C14': 'converged area ratio with an explicit error envelope for thousands of planar polygons aimed at seams, edges, centre and vertices on all faces', 'C15': '1-D domain swept on a dense grid (1e5 quick / 2e6 thorough) plus log-spaced approaches, against the exact closed form that is itself re-validated against 50-digit arithmetic each run; a second conversion completed inside every LINE event of a conversion on the shared converter, compared bit for bit', 'C16': 'systematic single-preemption schedules (context bound 2) at line and bytecode granularity over a catalogue covering all public functions, from warm state, from cold state (all shared containers rewound) and with bounded caches filled exactly to capacity; sampled context-bound-3 schedules with two real threads and a deterministic hand-over; randomised real-thread runs; schedules with more switches are only reached stochastically', 'C17': 'random histories with cold / partially warm / warm caches, every compared call re-executed alone in a fresh interpreter and compared bit for bit; argument snapshots and scrambling of returned lists', 'C18': 'all indices of levels 1..6 (quick) / 1..8 (thorough) in all six orientations with a planar manifold certificate, digit-pattern-directed indices up to level 28', 'C19': 'the 16-bit-lane family is enumerated completely (524,288 values), the rest of the 2^64 domain is sampled with structured and random values', 'C20': 'the metadata domain (31 resolutions, 496 resolution pairs) is finite and enumerated completely against observed hierarchy sizes up to level 6 (quick) / 8 (thorough); every metadata call also with a second one completed inside each of its LINE / INSTRUCTION events from the just-imported state'}
base = json.load(open('/root/.vp/BASELINE.json'))['cmd'].replace('--junitxml=<file>', '').strip()
checks, na = [], []
for pid, (engine, tech, ref) in T.items():
    if not os.path.exists(os.path.join(V, 'rv', 'checks', pid.lower() + '.py')):
        na.append({'property_id': pid, 'reason': 'check not built yet (planned, see DESIGN.md section %s)' % ref})
        continue
    checks.append({
        'property_id': pid,
        'quick_cmd': './vcheck %s quick' % pid,
        'thorough_cmd': './vcheck %s thorough' % pid,
        'evidence_file': 'evidence/%s.json' % pid,
        'replay_cmd_template': './vcheck replay {path}',
        'engine': engine,
        'level_claimed': {'category': 'exploration',
                          'text': 'runtime monitoring - held on what was observed, nothing is claimed for executions not produced: ' + LEVEL_TEXT[pid],
                          'design_ref': 'DESIGN.md section ' + ref + ' and 11.2'},
        'level_note': 'trusted base: CPython 3.12 (/venv), the stdlib-only oracles in rv/geo.py and rv/tree.py (self-tested every run), '
                      'a5 imported from the working tree of /repo (asserted in every shard)',
        'technique': 'runtime monitoring: ' + tech,
    })
m = {
 'version': 1,
 'setup_cmd': './vcheck setup',
 'hooks': {'guard': 'A5_PY_VERIF', 'enable': 'none required - monitors attach from outside the repository (function rebinding, sys.monitoring, state snapshots); no source commit uses the guard',
           'baseline_off_cmd': base, 'source_commits': [], 'add_only': True},
 'engines': [
  {'name': 'geo-monitor', 'path': 'rv/geo.py', 'serves_properties': [p for p, t in T.items() if t[0] == 'geo-monitor'], 'kind_free_text': 'independent spherical-geometry oracles observing real a5 calls'},
  {'name': 'id-monitor', 'path': 'rv/tree.py', 'serves_properties': [p for p, t in T.items() if t[0] == 'id-monitor'], 'kind_free_text': 'post-condition / reference-model monitors on ids and hierarchy'},
  {'name': 'scheduler', 'path': 'rv/sched.py', 'serves_properties': ['C16'], 'kind_free_text': 'sys.monitoring preemption injector and real-thread stressor'},
  {'name': 'history-monitor', 'path': 'rv/fresh.py', 'serves_properties': ['C17'], 'kind_free_text': 'fresh-interpreter oracle over recorded call histories'},
 ],
 'checks': checks,
 'notes': 'All checks: exit 0 held / 1 VIOLATION / 2 INCONCLUSIVE (never expected on the unchanged tree). VERIF_SEED, VERIF_TIER, VERIF_REPO honoured.',
 'not_applicable': na,
}
json.dump(m, open(os.path.join(V, 'MANIFEST.json'), 'w'), indent=1)
print(len(checks), 'claimed', len(na), 'not claimed')
