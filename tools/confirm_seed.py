#!/usr/bin/env python3
"""Confirms a sub-agent's seeded change independently and files it under /verif/seeded/<name>/.
usage: confirm_seed.py <worktree> <property> <A|B> <name> <needs text>"""
import json, os, shutil, subprocess, sys
sys.path.insert(0, os.path.dirname(os.path.abspath(__file__)))
import selftest
wt, prop, ab, name, needs = sys.argv[1:6]
src = os.path.join(wt, '_seed', ab)
patch = os.path.join(src, 'patch.diff')
demo = os.path.join(src, 'demo.py')
def run_demo(repo):
    p = subprocess.run(['/venv/bin/python', '-B', demo], env=dict(os.environ, PYTHONPATH=repo, PYTHONDONTWRITEBYTECODE='1'), capture_output=True, text=True, timeout=1800, cwd=repo)
    return p.returncode, (p.stdout + p.stderr)[-300:]
clean = selftest.scratch_copy()
try:
    rc0, out0 = run_demo(clean)
finally:
    shutil.rmtree(clean, ignore_errors=True)
mut = selftest.scratch_copy(patch)
try:
    t = subprocess.run(['/venv/bin/python', '-m', 'pytest', '-q', '-p', 'no:cacheprovider'], cwd=mut, env=dict(os.environ, PYTHONPATH=mut), capture_output=True, text=True)
    tests = t.stdout.strip().splitlines()[-1] if t.stdout.strip() else t.stderr[-200:]
    rc1, out1 = run_demo(mut)
    files = subprocess.run(['git', 'apply', '--numstat', patch], capture_output=True, text=True).stdout.split()
finally:
    shutil.rmtree(mut, ignore_errors=True)
ok = rc0 == 0 and rc1 != 0 and '925 passed' in tests
print(name, 'demo clean rc=%d, tests with change: %s, demo with change rc=%d -> %s' % (rc0, tests, rc1, 'CONFIRMED' if ok else 'REJECTED'))
if ok:
    d = os.path.join(selftest.V, 'seeded', name)
    os.makedirs(d, exist_ok=True)
    for f in ('patch.diff', 'demo.py', 'notes.md'):
        if os.path.exists(os.path.join(src, f)):
            shutil.copy(os.path.join(src, f), d)
    json.dump({'property': prop, 'origin': 'independent sub-agent (saw only the property text and a scratch worktree)', 'needs_to_manifest': needs,
               'confirmed_by_me': {'demo_on_unchanged_tree_rc': rc0, 'repo_tests_with_change': tests, 'demo_with_change_rc': rc1,
                                   'demo_output_with_change': out1.strip()[-200:],
                                   'how': 'tools/confirm_seed.py: scratch copy of /repo (a5 + tests) outside /repo and /verif, git apply, pytest, demo; copy removed'}},
              open(os.path.join(d, 'meta.json'), 'w'), indent=1)
sys.exit(0 if ok else 1)
