"""Probe layer: wrap real a5 functions from outside the repository and observe every call.

attach('a5.core.cell', 'lonlat_to_cell', on_return=..., on_raise=...) wraps the function object and rebinds
every alias of it found in any loaded a5.* module dict (`from x import f` creates aliases that a wrapper
installed only in the defining module would miss). Wrappers are exact pass-throughs.
"""
import importlib
import sys

_counts = {}
_attached = {}


def counts():
    return dict(_counts)


def attach(modname, name, on_call=None, on_return=None, on_raise=None, label=None):
    label = label or name
    try:
        mod = importlib.import_module(modname)
        owner, attr = mod, name
        if '.' in name:  # Class.method
            cls, attr = name.split('.')
            owner = getattr(mod, cls)
        orig = owner.__dict__[attr] if isinstance(owner, type) else getattr(owner, attr)
    except (ImportError, AttributeError, KeyError):
        _counts[label + ':not_attached'] = 1
        return None
    _counts.setdefault(label, 0)

    def wrapper(*a, **k):
        _counts[label] += 1
        if on_call:
            on_call(a, k)
        try:
            r = orig(*a, **k)
        except BaseException as e:
            if on_raise:
                on_raise(a, k, e)
            raise
        if on_return:
            on_return(a, k, r)
        return r
    wrapper.__name__ = getattr(orig, '__name__', attr)
    wrapper.__wrapped__ = orig
    if isinstance(owner, type):
        setattr(owner, attr, wrapper)
    else:
        for m in list(sys.modules.values()):
            if m is None or not getattr(m, '__name__', '').startswith('a5'):
                continue
            for k2, v in list(vars(m).items()):
                if v is orig:
                    setattr(m, k2, wrapper)
    _attached[label] = (owner, attr, orig, wrapper)
    return wrapper


def detach_all():
    for label, (owner, attr, orig, wrapper) in list(_attached.items()):
        if isinstance(owner, type):
            setattr(owner, attr, orig)
        else:
            for m in list(sys.modules.values()):
                if m is None or not getattr(m, '__name__', '').startswith('a5'):
                    continue
                for k2, v in list(vars(m).items()):
                    if v is wrapper:
                        setattr(m, k2, orig)
    _attached.clear()


def count_only(pairs):
    """attach pure counters: pairs = [(module, name), ...]"""
    for modname, name in pairs:
        attach(modname, name)
