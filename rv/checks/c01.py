"""C01 - the cell returned for a point contains that point."""
import math

ID = 'C01'
NEEDS_GEO_SELFTEST = True
LEDGER_FILES = ['a5/core/cell.py', 'a5/core/coordinate_transforms.py', 'a5/core/origin.py', 'a5/core/hilbert.py', 'a5/core/tiling.py',
                'a5/geometry/pentagon.py', 'a5/projections/dodecahedron.py', 'a5/projections/polyhedral.py']
MUST_ENTER = [('a5/core/cell.py', 'lonlat_to_cell'), ('a5/core/cell.py', '_lonlat_to_estimate'), ('a5/core/cell.py', 'a5cell_contains_point'),
              ('a5/core/cell.py', 'cell_to_boundary'), ('a5/geometry/pentagon.py', 'contains_point'),
              ('a5/core/coordinate_transforms.py', 'to_spherical')]
CLASSES = ['uniform', 'polar', 'frame', 'antimeridian', 'wide', 'huge', 'hug', 'edge', 'seam', 'equator']
RULE = ('points (lon, lat, r), r uniform in 0..29, from seven hostile classes: uniform; polar (colatitude log-uniform 1e-12..1e-1 rad + exact '
        'poles); frame (log-scale neighbourhoods of the 62 dodecahedron frame points, also displaced along seams/edges); antimeridian '
        '(+-180 +- 10^u); wide (lon in [-540,540], -0.0, denormals, ints, +-360/720); huge (|lon| up to 1e15, exactly reduced by fmod); '
        'hug (points t=1e-9..0.3 inside corners/edges of API-discovered cells); deepsearch (a cheap scan of ~160k points just inside cell corners, one lookup each; the oracle judges those whose lookup went through a run of >= 9 neighbour-search samples without a new candidate, observed through probes on the inner estimate and containment functions); branch (points next to the internal branch boundaries of the projection code, located at run time by bisection on sys.monitoring line signatures); lattice (ordered whole-degree sweeps, ints and floats, back to back); edge / seam (anywhere along the 30 dodecahedron edges / 120 '
        'triangle seams, displaced by 1e-12..1e-1 rad or exactly on them); antimeridian also covers the internal azimuth cuts at lon 87 / -93. Oracle: resolution of the returned id, then sag-aware '
        'adaptive gnomonic point-in-ring on cell_to_boundary (refined to 256 segments on demand); 360-degree periodicity for exactly '
        'representable shifts. distinct = distinct (lon, lat, r); non-trivial = r>=2 and the containment margin was decided (in/out), '
        'not within the numerical tolerance band')
ASSUMPTIONS = ['containment is topological, so geodetic colatitudes are used directly in the point-in-ring oracle',
               'a point within 4*sag + max(1e-9 w, 1e-13 rad) of the ring is "on the edge" and may belong to either cell']


def plan(tier, seed):
    n = 4000 if tier == 'quick' else 150000
    return [{'n': n} for _ in range(16)]


def p_huge(rnd):
    lat = math.degrees(math.asin(rnd.uniform(-1, 1)))
    mag = 10 ** rnd.uniform(3, 15)
    lon = rnd.choice((-1, 1)) * (mag if rnd.random() < 0.5 else float(int(mag)))
    return (lon, lat)


def eval_point(a5, geo, p, r, cls, ctx, expect=None):
    case = {'lon': p[0], 'lat': p[1], 'r': r, 'cls': cls}
    try:
        c = a5.lonlat_to_cell(p, r)
        if expect is not None and expect != c:
            # the same point looked up inside an ordered sweep gave another cell than looked up on its own: judge that one too
            ctx.fail('depends_on_previous_lookup', case, in_sweep=expect, alone=c)
    except Exception as e:
        ctx.case((p, r), nontrivial=False)
        ctx.fail('raises', case, exc=repr(e))
        return
    try:
        gr = a5.get_resolution(c)
    except Exception as e:
        gr = repr(e)
    if gr != r:
        ctx.case((p, r), nontrivial=False)
        ctx.fail('wrong_resolution', case, cell=c, got=gr)
        return
    pe = (math.fmod(float(p[0]), 360.0), float(p[1]))
    try:
        verdict, margin, k = geo.enclosed(lambda kk: a5.cell_to_boundary(c, {'segments': kk, 'closed_ring': True})[:-1], pe, r)
    except Exception as e:
        ctx.case((p, r), nontrivial=False)
        ctx.fail('boundary_raises', case, cell=c, exc=repr(e))
        return
    band = 'lo' if r < 10 else ('mid' if r < 20 else 'hi')
    decided = verdict in ('in', 'out')
    ctx.case((p, r), nontrivial=(r >= 2 and decided))
    ctx.count('%s_%s_%s' % (cls, band, 'decided' if decided else verdict))
    if verdict == 'out':
        ctx.fail('outside', case, cell=c, margin_w=margin, segments=k)
    elif verdict == 'degenerate':
        ctx.fail('degenerate_ring', case, cell=c)
    elif verdict == 'in':
        ctx.mini('margin_w_decided_inside', margin, case)
        if k > 16:
            ctx.count('refined_beyond_16_segments')
        # periodicity for exactly representable shifts
        if margin > 1e-6:
            for sh in (360.0, -360.0):
                l2 = p[0] + sh
                if isinstance(p[0], float) and (l2 - sh) == p[0] and abs(l2) <= 1e15:
                    try:
                        c2 = a5.lonlat_to_cell((l2, p[1]), r)
                    except Exception as e:
                        ctx.fail('raises', dict(case, lon=l2), exc=repr(e))
                        continue
                    ctx.count('periodicity_checks')
                    if c2 != c:
                        ctx.fail('not_periodic', case, cell=c, shifted_lon=l2, shifted_cell=c2)


_TRACE = []


def lattice_sweep(a5, geo, ctx):
    """ordered sweeps over whole-degree grids (ints and floats), neighbouring lookups back to back"""
    rnd = ctx.rnd
    for r in sorted({rnd.randint(0, 12), rnd.randint(13, 29)}):
        y0 = rnd.choice((-3, 0, 45, -60, 88))
        for y in range(y0 - 2, y0 + 3):
            if not -90 <= y <= 90:
                continue
            off = rnd.choice((0, 0, 180, -180, 87, -93))
            for conv in (int, float):
                row = [(conv(x + off), conv(y)) for x in range(-4, 5)]
                # the whole row is looked up back to back first (neighbouring lookups with nothing in between), then judged
                try:
                    for p in row:
                        a5.lonlat_to_cell(p, r)
                    got = [a5.lonlat_to_cell(p, r) for p in row]
                except Exception as e:
                    ctx.fail('raises', {'lon': row[0][0], 'lat': row[0][1], 'r': r, 'cls': 'lattice'}, exc=repr(e))
                    continue
                for p, c_row in zip(row, got):
                    eval_point(a5, geo, p, r, 'lattice', ctx, expect=c_row)


def deep_search_points(a5, geo, gen, probe, ctx, n_starts):
    """adversarial points guided by an inner probe: the number of neighbour-search samples lonlat_to_cell needed. A local random
    search near cell corners climbs towards points that are only resolved by late samples; every point met with a deep search is
    judged by the oracle."""
    rnd = ctx.rnd
    trace = _TRACE

    def depth(p, r):
        # score of a point = samples processed + 3 x the longest run of samples that produced no new candidate before the call
        # returned (both observed through the probes on _lonlat_to_estimate / a5cell_contains_point)
        del trace[:]
        try:
            a5.lonlat_to_cell(p, r)
        except Exception:
            return (99, 99)
        run = best_run = 0
        for ev in trace:
            if ev == 'E':
                run += 1
            else:
                best_run = max(best_run, run)
                run = 0
        # a run of n estimate calls closed by a containment test = n - 1 samples without a new candidate, then a new one
        return (best_run, len([e for e in trace if e == 'E']))
    for _ in range(n_starts):
        r = rnd.randint(2, 29)
        base = gen.p_uniform(rnd) if rnd.random() < 0.6 else gen.p_edge(rnd)
        try:
            c = a5.lonlat_to_cell(base, r)
            ring = a5.cell_to_boundary(c, {'segments': 1, 'closed_ring': False})
            cv = geo.ll_to_vec(*a5.cell_to_lonlat(c))
        except Exception:
            continue
        # a cheap scan (one lookup each, no oracle) of 20 points just inside the corners of this cell; the oracle judges the
        # points whose lookup went through a long run of samples without a new candidate
        best = (0, 0)
        for e_ll in ring:
            e = geo.ll_to_vec(*e_ll)
            for _k in range(4):
                t = 10 ** rnd.uniform(-2.5, -0.7)
                side = geo.ll_to_vec(*ring[rnd.randrange(len(ring))])
                q = geo.unit(geo.add(geo.add(geo.scale(e, 1 - t), geo.scale(cv, t * rnd.uniform(0.3, 1.0))), geo.scale(side, t * rnd.uniform(0, 0.7))))
                ll = geo.vec_to_ll(q)
                dp = depth(ll, r)
                ctx.count('corner_scan_lookups')
                if dp > best:
                    best = dp
                if 10 <= dp[0] < 99:
                    ctx.count('corner_scan_long_runs')
                    eval_point(a5, geo, ll, r, 'deepsearch', ctx)
                elif rnd.random() < 0.01:
                    eval_point(a5, geo, ll, r, 'deepsearch', ctx)
        ctx.maxi('search_longest_stale_run_plus_1', best[0], {'r': r})
        ctx.maxi('search_samples_needed', best[1], {'r': r})


def run_shard(spec, ctx):
    import a5
    from rv import geo, gen, probe
    probe.count_only([('a5.core.cell', 'lonlat_to_cell'), ('a5.core.cell', 'cell_to_boundary')])
    probe.attach('a5.core.cell', '_lonlat_to_estimate', on_call=lambda a, k: _TRACE.append('E') if len(_TRACE) < 200 else None)
    probe.attach('a5.core.cell', 'a5cell_contains_point', on_call=lambda a, k: _TRACE.append('C') if len(_TRACE) < 200 else None)
    from rv import branch
    bpts = branch.hostile_points(a5, ctx.rnd, 120, 100, 60)
    ctx.counters['branch_boundary_points'] = len(bpts)
    for ll_, where_ in bpts:
        ctx.setadd('branch_boundaries_located', where_)
    for i_ in range(min(len(bpts) * 3, 450)):
        r_ = ctx.rnd.choice((29, 28, 27, 26, 25, ctx.rnd.randint(2, 24), ctx.rnd.randint(2, 24)))
        eval_point(a5, geo, branch.near(ctx.rnd, bpts[i_ % len(bpts)][0], geo.width(r_)), r_, 'branch', ctx)
    lattice_sweep(a5, geo, ctx)
    deep_search_points(a5, geo, gen, probe, ctx, spec['n'] // 8)
    for n in range(spec['n']):
        cls = CLASSES[n % len(CLASSES)]
        if cls == 'huge':
            p, r = p_huge(ctx.rnd), ctx.rnd.randint(0, 29)
        else:
            p, r = gen.point(ctx.rnd, a5, cls)
        eval_point(a5, geo, p, r, cls, ctx)
    ctx.sample({'lon': p[0], 'lat': p[1], 'r': r, 'cls': cls, 'cell': a5.lonlat_to_cell(p, r)})


def finalize(m, tier):
    inc = []
    for cls in CLASSES + ['deepsearch']:
        for band in ('lo', 'hi'):
            if m['counters'].get('%s_%s_decided' % (cls, band), 0) < 200:
                inc.append('fewer than 200 decided points in class %s/%s' % (cls, band))
    return {'inconclusive': inc}


def replay(f, ctx):
    import a5
    from rv import geo
    c = f['case']
    eval_point(a5, geo, (c['lon'], c['lat']), c['r'], c.get('cls', 'replay'), ctx)
