"""C12 - boundary rings are well-formed polygons under every option combination."""
import copy
import math

ID = 'C12'
NEEDS_GEO_SELFTEST = True
LEDGER_FILES = ['a5/core/cell.py', 'a5/core/coordinate_transforms.py', 'a5/geometry/pentagon.py']
MUST_ENTER = [('a5/core/cell.py', 'cell_to_boundary'), ('a5/core/coordinate_transforms.py', 'normalize_longitudes'),
              ('a5/geometry/pentagon.py', 'split_edges')]
CLOSED = ['omit', True, False]
SEGS = ['omit', None, 'auto', 1, 2, 3, 7, 16]
RULE = ('cells x 24 option combinations (closed_ring in {omitted, True, False} x segments in {omitted, None, "auto", 1, 2, 3, 7, 16}, on 6% of the cells also 33..257 and one log-uniform random count in 17..600; also '
        'options=None): all cells of levels 0..3 (quick) / 0..5 (thorough); cells straddling the antimeridian, touching a pole or a '
        'frame point, and structured deep ids at r in 4..29. Per ring: vertex count (3 at r=1 else 5) x s [+1], closure iff closed_ring, '
        'latitudes in [-90,90], counter-clockwise and simple in the gnomonic plane at the centroid, corner points independent of the '
        'options (compared on the sphere), and - unless a pole is in / on the cell by the ring oracle - no longitude jump >= 180 between '
        'consecutive vertices and span < 180; options dict unchanged; on a quarter of the calls the returned ring is edited in place and the call repeated (must give the same ring again). distinct = distinct (id, options); non-trivial = r>=1 or segments>1')
ASSUMPTIONS = ['corner tolerance max(1e-9 w, 1e-13 rad); a longitude differing by a whole turn is the same point',
               'orientation is judged in the gnomonic plane at the ring centroid, seen from outside the sphere']


def plan(tier, seed):
    top = 3 if tier == 'quick' else 5
    specs = [{'part': 'enum', 'face': f, 'top': top} for f in range(12)]
    for i in range(4 if tier == 'quick' else 20):
        specs.append({'part': 'located', 'n': 800 if tier == 'quick' else 8000})
    return specs


def auto_segments(r):
    return max(1, 2 ** (6 - r))


def eval_cell(a5, geo, c, r, cls, ctx, combos=None):
    w = geo.width(r)
    tolc = max(1e-9 * w, 1e-13)
    edges = 3 if r == 1 else 5
    corners_ref = None
    heavy_done = set()
    pole_cell = None
    for cr in CLOSED:
        for sg in SEGS:
            if combos is not None and (cr, sg) not in combos:
                continue
            opts = {}
            if cr != 'omit':
                opts['closed_ring'] = cr
            if sg != 'omit':
                opts['segments'] = sg
            case = {'cell': c, 'r': r, 'cls': cls, 'closed_ring': cr, 'segments': sg}
            ctx.case((c, cr, sg), nontrivial=(r >= 1 or (isinstance(sg, int) and sg > 1)))
            snap = copy.deepcopy(opts)
            try:
                ring = a5.cell_to_boundary(c, opts) if (opts or ctx.rnd.random() < 0.5) else a5.cell_to_boundary(c)
            except Exception as e:
                ctx.fail('raises', case, exc=repr(e))
                continue
            if opts != snap:
                ctx.fail('options_mutated', case, now=opts)
            if ctx.rnd.random() < 0.25:
                # hostile caller: edit the ring that was handed out (a renderer closing / reversing / trimming it in place), then
                # ask for the same ring again
                keep = [tuple(p) for p in ring]
                first = ring
                try:
                    first.reverse()
                    first.pop()
                    if first and isinstance(first[0], list):
                        first[0][0] = 0.0
                    ring = a5.cell_to_boundary(c, copy.deepcopy(snap)) if snap else a5.cell_to_boundary(c)
                except Exception as e:
                    ctx.fail('raises', case, exc=repr(e), after_editing_earlier_result=True)
                    continue
                ctx.count('edit_result_and_repeat')
                if [tuple(p) for p in ring] != keep or ring is first:
                    ctx.fail('ring_depends_on_edited_earlier_result', case, got_len=len(ring), want_len=len(keep))
                    continue
            s = sg if isinstance(sg, int) else auto_segments(r)
            closed = cr in ('omit', True)
            want = edges * s + (1 if closed else 0)
            if len(ring) != want:
                ctx.fail('vertex_count', case, got=len(ring), want=want)
                continue
            if closed and tuple(ring[0]) != tuple(ring[-1]):
                ctx.fail('not_closed', case, first=ring[0], last=ring[-1])
            if not closed and tuple(ring[0]) == tuple(ring[-1]):
                ctx.fail('open_ring_repeats_first', case)
            if any(not (-90.0 <= la <= 90.0) or lo != lo for lo, la in ring):
                ctx.fail('latitude_range', case)
                continue
            body = ring[:-1] if closed else ring
            # corners: index 0 mod s of the closed ring body, s-1 mod s of an open ring (final reversal)
            off = 0 if closed else s - 1
            corners = [geo.ll_to_vec(*body[(off + i * s) % len(body)]) for i in range(edges)]
            if corners_ref is None:
                corners_ref = corners
            else:
                worst = max(min(geo.ang(a, b) for b in corners_ref) for a in corners)
                if worst > tolc:
                    ctx.fail('corners_depend_on_options', case, worst_rad=worst, worst_w=worst / w)
            key = s
            if key in heavy_done:
                continue
            heavy_done.add(key)
            cc, e1, e2, poly, vs = geo.ring_plane(body)
            if min(geo.dot(cc, v) for v in vs) <= 0.05:
                ctx.fail('ring_not_local', case)
                continue
            mind = min(math.hypot(poly[i][0] - poly[(i + 1) % len(poly)][0], poly[i][1] - poly[(i + 1) % len(poly)][1]) for i in range(len(poly)))
            if mind < 0.02 * w / s:
                ctx.fail('repeated_or_collapsed_vertices', case, min_spacing_w=mind / w, expected_about=0.6 / s)
                continue
            area = geo.signed_area2d(poly)
            if not area > 0:
                ctx.fail('clockwise_or_degenerate', case, signed_area_w2=area / (w * w))
                continue
            if len(poly) <= 100 or ctx.rnd.random() < 0.2:
                if not geo.is_simple(poly):
                    ctx.fail('self_intersecting', case)
                ctx.count('simplicity_checks')
            if pole_cell is None:
                pole_cell = False
                for pole in ((0.0, 90.0), (0.0, -90.0)):
                    if geo.dot(geo.ll_to_vec(*pole), cc) > 0.05:
                        v, mg, _ = geo.enclosed(lambda kk: a5.cell_to_boundary(c, {'segments': kk, 'closed_ring': True})[:-1], pole, r)
                        if v in ('in', 'edge') or (mg is not None and abs(mg) < 1e-6):
                            pole_cell = True
                if pole_cell:
                    ctx.count('pole_cells')
            if not pole_cell:
                lons = [lo for lo, _ in ring]
                jump = max(abs(lons[i + 1] - lons[i]) for i in range(len(lons) - 1)) if len(lons) > 1 else 0.0
                span = max(lons) - min(lons)
                ctx.maxi('lon_span_deg_non_pole_cells', span, case)
                if jump >= 180.0:
                    ctx.fail('longitude_jump', case, jump=jump)
                if span >= 180.0:
                    ctx.fail('longitude_span', case, span=span)
                if span > 0 and (max(lons) > 180.0 or min(lons) < -180.0):
                    ctx.count('rings_extending_past_antimeridian')
    if combos is None and ctx.rnd.random() < 0.06:
        # the property covers every integer segment count: a few large ones (count, closure, corners only)
        for sg in (ctx.rnd.choice((33, 64, 65)), ctx.rnd.choice((100, 128, 257)), int(10 ** ctx.rnd.uniform(math.log10(17), math.log10(600)))):
            opts = {'segments': sg, 'closed_ring': ctx.rnd.choice((True, False))}
            case = {'cell': c, 'r': r, 'cls': cls, 'closed_ring': opts['closed_ring'], 'segments': sg}
            ctx.case((c, opts['closed_ring'], sg))
            try:
                ring = a5.cell_to_boundary(c, dict(opts))
            except Exception as e:
                ctx.fail('raises', case, exc=repr(e))
                continue
            closed = opts['closed_ring']
            if len(ring) != edges * sg + (1 if closed else 0):
                ctx.fail('vertex_count', case, got=len(ring), want=edges * sg + (1 if closed else 0))
                continue
            body = ring[:-1] if closed else ring
            off = 0 if closed else sg - 1
            corners = [geo.ll_to_vec(*body[(off + i * sg) % len(body)]) for i in range(edges)]
            if corners_ref is not None:
                worst = max(min(geo.ang(a_, b_) for b_ in corners_ref) for a_ in corners)
                if worst > tolc:
                    ctx.fail('corners_depend_on_options', case, worst_rad=worst, worst_w=worst / w)
            ctx.count('large_segment_rings')
    ctx.count('cells_%s_%s' % (cls, 'lo' if r < 10 else ('mid' if r < 20 else 'hi')))


def run_shard(spec, ctx):
    import a5
    from rv import geo, gen, probe
    probe.count_only([('a5.core.cell', 'cell_to_boundary'), ('a5.core.coordinate_transforms', 'normalize_longitudes')])
    rnd = ctx.rnd
    if spec['part'] == 'enum':
        face = a5.cell_to_children(0, 0)[spec['face']]
        for r in range(0, spec['top'] + 1):
            for c in a5.cell_to_children(face, r):
                eval_cell(a5, geo, c, r, 'enum', ctx)
        ctx.sample({'cell': c, 'r': r, 'ring_segments_1': a5.cell_to_boundary(c, {'segments': 1})})
        return
    from rv import branch
    bpts = branch.hostile_points(a5, rnd, 120, 100, 60)
    ctx.counters['branch_boundary_points'] = len(bpts)
    for n in range(spec['n']):
        kind = ('antimeridian', 'polar', 'frame', 'pattern', 'edge', 'meridian87', 'polar_antimeridian', 'equator', 'branch')[n % 9]
        r = rnd.randint(4, 29)
        try:
            if kind == 'branch':
                if not bpts:
                    continue
                r = rnd.choice((29, 28, 27, 26, 25, rnd.randint(4, 24)))
                c = a5.lonlat_to_cell(branch.near(rnd, bpts[rnd.randrange(len(bpts))][0], geo.width(r)), r)
            elif kind == 'antimeridian':
                lat = math.degrees(math.asin(rnd.uniform(-1, 1)))
                d = math.degrees(geo.width(r)) * rnd.uniform(-0.6, 0.6) / max(0.05, math.cos(math.radians(lat)))
                c = a5.lonlat_to_cell((rnd.choice((180.0, -180.0)) + d, lat), r)
            elif kind == 'polar_antimeridian':
                # a cell next to a pole (not necessarily containing it) that lies on the antimeridian / an internal azimuth cut
                cdist = 10 ** rnd.uniform(math.log10(geo.width(r)) - 0.5, math.log10(geo.width(r)) + 2.5)
                lat = (90.0 - math.degrees(min(cdist, 0.5))) * rnd.choice((-1, 1))
                c = a5.lonlat_to_cell((rnd.choice((180.0, -180.0, 87.0, -93.0)) + rnd.uniform(-1, 1) * math.degrees(geo.width(r)) / max(1e-9, cdist), lat), r)
            elif kind == 'meridian87':
                lat = math.degrees(math.asin(rnd.uniform(-1, 1)))
                d = math.degrees(geo.width(r)) * rnd.uniform(-0.6, 0.6) / max(0.05, math.cos(math.radians(lat)))
                c = a5.lonlat_to_cell((rnd.choice((87.0, -93.0)) + d, lat), r)
            elif kind == 'pattern':
                c = gen.cell_by_path(a5, rnd.randrange(12), rnd.randrange(5), gen.digits_pattern(rnd, r - 1))
            else:
                p, _ = gen.point(rnd, a5, kind, r)
                c = a5.lonlat_to_cell(p, r)
        except Exception as e:
            ctx.note('locating call raised %r' % (e,))
            continue
        eval_cell(a5, geo, c, r, kind, ctx)
    ctx.sample({'cell': c, 'r': r, 'ring_segments_1': a5.cell_to_boundary(c, {'segments': 1})})


def finalize(m, tier):
    inc = []
    for k in ('cells_enum_lo', 'cells_antimeridian_hi', 'cells_polar_hi', 'cells_frame_hi', 'cells_pattern_hi'):
        if m['counters'].get(k, 0) < 50:
            inc.append('class %s below floor' % k)
    if m['counters'].get('pole_cells', 0) < 5 or m['counters'].get('rings_extending_past_antimeridian', 0) < 20:
        inc.append('too few pole cells / antimeridian-crossing rings observed')
    return {'inconclusive': inc, 'explanation': 'levels 0..%d x 24 option combinations enumerated completely' % (3 if tier == 'quick' else 5)}


def replay(f, ctx):
    import a5
    from rv import geo
    c = f['case']
    eval_cell(a5, geo, c['cell'], c['r'], c.get('cls', 'replay'), ctx)
