"""C16 - results do not depend on what other threads are doing."""
import os

ID = 'C16'
LEDGER_FILES = ['a5/math/vec3.py', 'a5/geometry/spherical_polygon.py', 'a5/projections/dodecahedron.py', 'a5/projections/polyhedral.py',
                'a5/projections/crs.py', 'a5/core/cell.py']
MUST_ENTER = [('a5/math/vec3.py', 'tripleProduct'), ('a5/math/vec3.py', 'vectorDifference'), ('a5/math/vec3.py', 'quadrupleProduct'),
              ('a5/math/vec3.py', 'slerp'), ('a5/geometry/spherical_polygon.py', 'get_triangle_area'), ('a5/core/cell.py', 'lonlat_to_cell')]
RULE = ('(i) systematic preemption injection (sys.monitoring, context bound 2): for ordered pairs (A, B) of concrete calls from a catalogue '
        'covering all 13 public functions (geometric calls on several faces, a pole, the antimeridian, low and high resolution), B is run '
        'to completion inside the k-th LINE event of A; quick: up to 600 injection points per geometric pair (exhaustive when A has fewer '
        'events, strided with a seed-dependent offset otherwise) and 40 per other pair; thorough: exhaustive for every pair. INSTRUCTION-level '
        'injection inside vec3 / spherical_polygon / spherical_triangle / polyhedral / dodecahedron / pentagon / vec2 / quat code objects '
        '(strided quick, exhaustive thorough); bounded-cache eviction windows (containers that stop growing under 6k-20k distinct calls are filled exactly to capacity with the entries of A as the oldest, B inserts a new entry at every event of A); cold-start schedules: all shared containers rewound to their import-time contents before A, B '
        'injected at every LINE event that only a cold run executes (cache-fill code) plus a stride sample. Verdict: A result and injected B result bit-equal to their single-threaded baselines, no '
        'exception. (ii) context bound 3: two real threads with a deterministic hand-over inside the monitoring callbacks - A up to event k, B up to event j, A to the end, B to the end - for sampled (k, j), a third of them from cold state; (iii) real threads: 8 and 16 threads, switch interval 1 us, mixed operations against precomputed expectations. '
        'distinct = distinct (A, B, granularity, event index) executions; non-trivial = injections that actually fired inside a5 code')
ASSUMPTIONS = ['context bound 2 with B run to completion; schedules with three or more interleaved calls or a partial B are only reached by the real-thread run',
               'CPython with the GIL: a preemption can only happen between bytecodes, which the LINE / INSTRUCTION events enumerate']

PROBES = ('c2l_deep', 'c2l_low', 'c2l_res0', 'c2b_seg', 'l2c_mid_alt', 'l2c_pole_alt')
GEO = ['l2c_mid', 'l2c_pole', 'l2c_anti_hi', 'c2l_deep', 'c2b_auto_low', 'c2b_seg']
OTHER = ['c2l_low', 'compact', 'uncompact', 'children', 'parent', 'hex', 'meta', 'res0', 'l2c_mid_alt', 'l2c_pole_alt', 'l2c_anti_alt',
         'hex_b', 'parent_b', 'children_b', 'c2b_res1', 'c2b_res0', 'c2l_res0', 'l2c_exact_pole', 'l2c_seam_meridian', 'l2c_face_centre',
         'l2c_edge_mid']


def catalogue(a5, seed):
    import random
    rnd = random.Random('cat/%s' % seed)
    pm = (rnd.uniform(-170, 170), rnd.uniform(-60, 60))
    pp = (rnd.uniform(-180, 180), rnd.choice((-1, 1)) * (90 - 10 ** rnd.uniform(-6, -2)))
    pa = (rnd.choice((-180, 180)) + rnd.uniform(-1e-4, 1e-4), rnd.uniform(-70, 70))
    c9 = a5.lonlat_to_cell((rnd.uniform(-170, 170), rnd.uniform(-60, 60)), 9)
    c3 = a5.lonlat_to_cell((rnd.uniform(-170, 170), rnd.uniform(60, 89)), 3)
    c20 = a5.lonlat_to_cell((179.9999, rnd.uniform(-89.99, -89)), 20)
    c26 = a5.lonlat_to_cell((rnd.uniform(-170, 170), rnd.uniform(-60, 60)), 26)
    c1 = a5.lonlat_to_cell((rnd.uniform(-170, 170), rnd.uniform(-60, 60)), 1)
    kids = a5.cell_to_children(a5.lonlat_to_cell((rnd.uniform(-170, 170), rnd.uniform(-60, 60)), 4), 6)
    rm, rp, ra = rnd.randint(8, 14), rnd.randint(15, 22), rnd.randint(25, 29)

    def corner_point(p, r):
        # another point at the same resolution, just inside a corner of some cell nearby (needs the later search samples)
        from rv import geo
        c = a5.lonlat_to_cell((p[0] + rnd.uniform(-3, 3), max(-89.0, min(89.0, p[1] + rnd.uniform(-3, 3)))), r)
        ring = a5.cell_to_boundary(c, {'segments': 1, 'closed_ring': False})
        cv = geo.ll_to_vec(*a5.cell_to_lonlat(c))
        e = geo.ll_to_vec(*ring[rnd.randrange(len(ring))])
        t = 10 ** rnd.uniform(-4, -2)
        return list(geo.vec_to_ll(geo.unit(geo.add(geo.scale(e, 1 - t), geo.scale(cv, t)))))
    return {
        'l2c_mid': ('lonlat_to_cell', [list(pm), rm]),
        'l2c_pole': ('lonlat_to_cell', [list(pp), rp]),
        'l2c_anti_hi': ('lonlat_to_cell', [list(pa), ra]),
        'l2c_mid_alt': ('lonlat_to_cell', [corner_point(pm, rm), rm]),
        'l2c_pole_alt': ('lonlat_to_cell', [corner_point((pp[0], 60.0 if pp[1] > 0 else -60.0), rp), rp]),
        'l2c_anti_alt': ('lonlat_to_cell', [corner_point((170.0, pa[1]), ra), ra]),
        'c2l_deep': ('cell_to_lonlat', [c20]),
        'c2l_low': ('cell_to_lonlat', [c1]),
        'c2b_auto_low': ('cell_to_boundary', [c3]),
        'c2b_seg': ('cell_to_boundary', [c26, {'segments': 3, 'closed_ring': False}]),
        'compact': ('compact', [kids + [c9]]),
        'uncompact': ('uncompact', [[c9], 11]),
        'children': ('cell_to_children', [c9, 11]),
        'parent': ('cell_to_parent', [c20, 4]),
        'hex': ('hex_roundtrip', [c20]),
        'hex_b': ('u64_to_hex', [c26]),
        'parent_b': ('cell_to_parent', [c26, 11]),
        'children_b': ('cell_to_children', [c3, 5]),
        'meta': ('meta', [c9]),
        'res0': ('get_res0_cells', []),
        'c2b_res1': ('cell_to_boundary', [c1, {'segments': 4}]),
        'c2b_res0': ('cell_to_boundary', [a5.cell_to_parent(c1), {'segments': 3, 'closed_ring': False}]),
        'c2l_res0': ('cell_to_lonlat', [a5.cell_to_parent(c1)]),
        # inputs exactly on special sets: a pole, a triangle seam meridian (lon = -93 + 36k), a face centre, an edge midpoint
        'l2c_exact_pole': ('lonlat_to_cell', [[rnd.uniform(-180, 180), rnd.choice((90.0, -90.0))], rnd.randint(5, 25)]),
        'l2c_seam_meridian': ('lonlat_to_cell', [[-93.0 + 36 * rnd.randrange(10), rnd.uniform(60, 89.9)], rnd.randint(5, 25)]),
        'l2c_face_centre': ('lonlat_to_cell', [list(_frame_ll(rnd, 'centre')), rnd.randint(5, 25)]),
        'l2c_edge_mid': ('lonlat_to_cell', [list(_frame_ll(rnd, 'mid')), rnd.randint(5, 25)]),
    }


def _frame_ll(rnd, kind):
    from rv import gen, geo
    pts = [f for k, f in gen.FRAME if k == kind]
    return geo.vec_to_ll(pts[rnd.randrange(len(pts))])


def make_call(a5, spec):
    fn, args = spec
    if fn == 'lonlat_to_cell':
        p, r = tuple(args[0]), args[1]
        return lambda: a5.lonlat_to_cell(p, r)
    if fn == 'cell_to_lonlat_burst':
        return lambda: [a5.cell_to_lonlat(x) for x in args[0]]
    if fn == 'hex_roundtrip':
        return lambda: a5.hex_to_u64(a5.u64_to_hex(args[0]))
    if fn == 'meta':
        return lambda: (a5.get_num_cells(9), a5.cell_area(9), a5.get_resolution(args[0]), a5.get_res0_cells())
    if fn == 'cell_to_boundary' and len(args) == 2:
        return lambda: a5.cell_to_boundary(args[0], dict(args[1]))
    f = getattr(a5, fn)
    return lambda: f(*[list(x) if isinstance(x, list) else x for x in args])


def plan(tier, seed):
    specs = []
    geo_pairs = [(a, b) for a in GEO for b in GEO]
    allnames = GEO + OTHER
    other_pairs = [(a, b) for a in allnames for b in allnames if not (a in GEO and b in GEO)]
    nsh = 12 if tier == 'quick' else 32
    for i in range(nsh):
        specs.append({'part': 'inject', 'pairs': geo_pairs[i::nsh], 'cap': 600 if tier == 'quick' else 0, 'mode': 'line'})
    nso = 6 if tier == 'quick' else 10
    for i in range(nso):
        specs.append({'part': 'inject', 'pairs': other_pairs[i::nso], 'cap': 40 if tier == 'quick' else 0, 'mode': 'line'})
    nsi = 3 if tier == 'quick' else 12
    ipairs = [(a, b) for a in GEO for b in ('l2c_mid', 'c2b_seg', 'c2l_deep')]
    ipairs += [(a, b) for a in ('l2c_mid', 'l2c_pole') for b in ('l2c_exact_pole', 'l2c_seam_meridian', 'l2c_face_centre')]
    for i in range(nsi):
        specs.append({'part': 'inject', 'pairs': ipairs[i::nsi], 'cap': 250 if tier == 'quick' else 0, 'mode': 'instruction'})
    for i, nt in enumerate((8, 16, 8) if tier == 'quick' else (8, 16, 8, 16, 4, 32)):
        specs.append({'part': 'threads', 'threads': nt, 'seconds': 15 if tier == 'quick' else 100})
    nsc = 8 if tier == 'quick' else 24
    cpairs = [(a, b) for a in GEO for b in ('l2c_mid', 'c2b_seg', 'c2l_deep')]
    cpairs += [('l2c_mid', 'l2c_mid_alt'), ('l2c_pole', 'l2c_pole_alt'), ('l2c_anti_hi', 'l2c_anti_alt'), ('res0', 'res0'), ('meta', 'children'),
               ('c2b_res1', 'c2l_low'), ('c2b_res0', 'c2l_res0'), ('c2l_low', 'c2b_res1')]
    cpairs += [(a, b) for a in ('l2c_mid', 'l2c_pole', 'c2b_seg') for b in ('l2c_exact_pole', 'l2c_seam_meridian', 'l2c_face_centre', 'l2c_edge_mid')]
    for i in range(nsc):
        specs.append({'part': 'inject_cold', 'pairs': cpairs[i::nsc], 'cap': 60 if tier == 'quick' else 600})
    hp = [(a, b) for a in ('l2c_mid', 'l2c_pole', 'c2l_deep', 'c2b_seg', 'c2b_auto_low', 'compact') for b in ('l2c_mid_alt', 'c2l_deep', 'c2b_seg', 'res0')]
    nsh2 = 3 if tier == 'quick' else 12
    for i in range(nsh2):
        specs.append({'part': 'handover', 'pairs': hp[i::nsh2], 'n': 150 if tier == 'quick' else 2500})
    specs.append({'part': 'inject_pressure', 'cap': 400 if tier == 'quick' else 0, 'fill': 6000 if tier == 'quick' else 20000})
    specs.append({'part': 'footprint'})
    return specs


def inject_pair(a5, sched, inj, cat, an, bn, mode, k, ctx, base, cold=False):
    A, B = make_call(a5, cat[an]), make_call(a5, cat[bn])
    st, res = inj.run(A, B, k, mode)
    fired = inj.where is not None
    case = {'A': an, 'B': bn, 'A_call': cat[an], 'B_call': cat[bn], 'mode': mode, 'k': k, 'site': list(inj.where) if inj.where else None,
            'cold': cold}
    ctx.case((an, bn, mode, k, cold), nontrivial=fired)
    if st == 'exc':
        ctx.fail('A_raises', case, exc=repr(res))
    elif sched.canon(res) != base[an]:
        ctx.fail('A_wrong_result', case)
    if fired:
        ctx.count('injections_fired_%s' % mode)
        if inj.bexc is not None:
            ctx.fail('B_raises', case, exc=repr(inj.bexc))
        elif sched.canon(inj.bres) != base[bn]:
            ctx.fail('B_wrong_result', case)
    return fired


def run_shard(spec, ctx):
    import a5
    from rv import sched, state
    import a5.core.cell, a5.core.compact  # noqa
    rew = state.Rewinder()  # import-time (cold) contents of every shared container
    a5dir = os.path.dirname(os.path.realpath(a5.__file__))
    cat = catalogue(a5, spec['seed'])
    base = {n: sched.canon(make_call(a5, s)()) for n, s in cat.items()}
    if spec['part'] == 'inject':
        inj = sched.Injector(a5dir)
        import a5.math.vec3 as m1, a5.geometry.spherical_polygon as m2, a5.geometry.spherical_triangle as m3
        import a5.projections.polyhedral as m4, a5.projections.dodecahedron as m5, a5.geometry.pentagon as m6
        import a5.math.vec2 as m7, a5.math.quat as m8, a5.core.coordinate_transforms as m9, a5.projections.crs as m10
        inj.set_instruction_targets([m1, m2, m3, m4, m5, m6, m7, m8, m9, m10])
        mode = spec['mode']
        for an, bn in spec['pairs']:
            n = inj.events_in(make_call(a5, cat[an]), mode)
            ctx.maxi('events_%s_%s' % (mode, an), n)
            cap = spec['cap']
            if cap and cap < 100 and n <= 700:
                cap = 0  # short calls are cheap: every event
            if cap and n > cap:
                step = n / cap
                off = ctx.rnd.random() * step
                ks = sorted({int(off + i * step) + 1 for i in range(cap)})
            else:
                ks = range(1, n + 1)
                ctx.count('pairs_exhaustive_%s' % mode)
            for k in ks:
                inject_pair(a5, sched, inj, cat, an, bn, mode, k, ctx, base)
            ctx.count('pairs_%s' % mode)
        for s in sorted(inj.sites)[:3]:
            ctx.sample({'A': an, 'B': bn, 'mode': mode, 'preemption_site': list(s)})
        for s in inj.sites:
            ctx.setadd('preemption_sites_%s' % mode, s)
            ctx.setadd('preemption_site_functions', (s[0], s[1]))
        inj.close()
    elif spec['part'] == 'inject_cold':
        # cold-start schedules: every shared container is put back to its import-time contents before A starts, B is injected
        # at every LINE event that only a cold run executes (cache-fill code) and at a stride sample of the others
        inj = sched.Injector(a5dir)
        for an, bn in spec['pairs']:
            A = make_call(a5, cat[an])
            A()
            warm = set(inj.trace_of(A))
            rew.rewind()
            cold = inj.trace_of(A)
            only = [i + 1 for i, loc in enumerate(cold) if loc not in warm]
            ctx.maxi('cold_only_events_%s' % an, len(only))
            if ctx.tier == 'quick' and len(only) > 250:
                st_ = len(only) / 250.0
                o_ = ctx.rnd.random() * st_
                only = [only[min(len(only) - 1, int(o_ + i * st_))] for i in range(250)]
            step = max(1, len(cold) // spec['cap'])
            ks = sorted(set(only) | set(range(1 + int(ctx.rnd.random() * step), len(cold) + 1, step)))
            for k in ks:
                rew.rewind()
                if inject_pair(a5, sched, inj, cat, an, bn, 'line', k, ctx, base, cold=True):
                    ctx.count('injections_fired_cold')
                # the caches that this schedule filled must serve later calls correctly too - the two racing calls and calls
                # that land in other triangles / faces / resolutions
                for n2 in (an, bn) + (PROBES if k % 4 == 0 else PROBES[:3]):
                    r2 = sched.canon(make_call(a5, cat[n2])())
                    if r2 != base[n2]:
                        ctx.fail('wrong_result_after_cold_schedule', {'A': an, 'B': bn, 'A_call': cat[an], 'B_call': cat[bn], 'mode': 'line',
                                                                         'k': k, 'cold': True, 'later_call': n2})
            ctx.count('pairs_cold')
        for s in inj.sites:
            ctx.setadd('preemption_sites_cold', s)
        inj.close()
    elif spec['part'] == 'handover':
        # context bound 3 with two real threads and a deterministic hand-over: A[0:k] B[0:j] A[k:] B[j:], (k, j) sampled, cold and warm
        inj = sched.Injector(a5dir)
        ho = sched.Handover(a5dir)
        conts_h = [(p_, o) for p_, o in state.containers() if isinstance(o, (list, dict)) and not p_.endswith('.__dict__')]
        for an, bn in spec['pairs']:
            A, B = make_call(a5, cat[an]), make_call(a5, cat[bn])
            na, nb = inj.events_in(A, 'line'), inj.events_in(B, 'line')
            rew.rewind()
            nac, nbc = inj.events_in(A, 'line'), inj.events_in(B, 'line')
            # directed schedules: stop both calls right where they WRITE shared containers (the warm write footprint, if any)
            A(), B()
            objs_h = [o for p_, o in conts_h]
            if True:

                def sig_():
                    # lengths (and the identity of the last element of lists) of every shared list / dict: transient pops,
                    # appends, insertions and deletions all show up, also when the container is back to its old state at the end
                    return tuple((len(o), id(o[-1]) if o.__class__ is list and o else 0) for o in objs_h)
                ca = inj.state_change_events(A, sig_)
                cb = inj.state_change_events(B, sig_)
                if ca or cb:
                    ctx.count('pairs_with_transient_shared_writes')
                cand = [(k + dk, j + dj) for k in ca[:400] for j in cb[:400] for dk in (-1, 0) for dj in (0, 1, 2)]
                ctx.rnd.shuffle(cand)
                for k, j in cand[:spec['n']]:
                    if k < 1 or j < 1:
                        continue
                    ra, rb, hung = ho.run(A, B, k, j)
                    case = {'A': an, 'B': bn, 'A_call': cat[an], 'B_call': cat[bn], 'mode': 'handover', 'k': k, 'j': j, 'cold': False}
                    ctx.case((an, bn, 'handover', k, j, 'directed'), nontrivial=True)
                    ctx.count('handover_schedules_directed')
                    if hung or ra is None or rb is None:
                        ctx.count('handover_watchdog')
                        continue
                    for nm, r_, name in (('A', ra, an), ('B', rb, bn)):
                        if r_[0] == 'exc':
                            ctx.fail('%s_raises' % nm, case, exc=repr(r_[1]))
                        elif sched.canon(r_[1]) != base[name]:
                            ctx.fail('%s_wrong_result' % nm, case)
            for it in range(spec['n']):
                cold = it % 3 == 0
                k = ctx.rnd.randint(1, nac if cold else na)
                j = ctx.rnd.randint(1, nbc if cold else nb)
                if cold:
                    rew.rewind()
                ra, rb, hung = ho.run(A, B, k, j)
                case = {'A': an, 'B': bn, 'A_call': cat[an], 'B_call': cat[bn], 'mode': 'handover', 'k': k, 'j': j, 'cold': cold}
                ctx.case((an, bn, 'handover', k, j, cold), nontrivial=ho.a_stopped_at is not None and ho.b_stopped_at is not None)
                if hung or ra is None or rb is None:
                    ctx.count('handover_watchdog')
                    continue
                if ho.a_stopped_at is not None and ho.b_stopped_at is not None:
                    ctx.count('handover_schedules_interleaved')
                    ctx.setadd('handover_sites', (ho.a_stopped_at[:2], ho.b_stopped_at[:2]))
                for nm, r_, name in (('A', ra, an), ('B', rb, bn)):
                    if r_[0] == 'exc':
                        ctx.fail('%s_raises' % nm, case, exc=repr(r_[1]))
                    elif sched.canon(r_[1]) != base[name]:
                        ctx.fail('%s_wrong_result' % nm, case)
                if cold:
                    for n2 in (an, bn):
                        if sched.canon(make_call(a5, cat[n2])()) != base[n2]:
                            ctx.fail('wrong_result_after_cold_schedule', dict(case, later_call=n2))
        ho.close()
        inj.close()
    elif spec['part'] == 'inject_pressure':
        # bounded-cache eviction windows: find shared containers that stop growing under a stream of distinct calls (= bounded
        # caches), put call A's entries in as the OLDEST ones of a cache filled exactly to capacity, then inject a call B that
        # inserts a new entry at every LINE event of A (check-then-get races only exist in that state)
        import copy
        from rv import gen
        parents = [gen.random_cell(ctx.rnd, a5, ctx.rnd.randint(8, 20)) for _ in range(max(2, spec['fill'] // 4096 + 1))]
        fill_cells = []
        for pc in parents:
            fill_cells.extend(a5.cell_to_children(pc, a5.get_resolution(pc) + 6))
        spread = [gen.random_cell(ctx.rnd, a5, ctx.rnd.randint(3, 20)) for _ in range(600)]
        fill_cells = [x for pair in zip(spread, fill_cells) for x in pair] + fill_cells[len(spread):]   # every other early filler lands in another triangle
        fillers = [(lambda c=c: a5.cell_to_lonlat(c)) for c in fill_cells]
        rew.rewind()
        hist = {}
        watched = []
        for i in range(min(spec['fill'], len(fillers))):
            fillers[i]()
            if i == 200:
                watched = [(p_, o_) for p_, o_ in state.containers() if isinstance(o_, dict) and not p_.endswith('.__dict__') and len(o_) >= 8]
                for p_, o_ in watched:
                    hist[id(o_)] = [p_, o_, [], len(o_), 0]
            elif i > 200:
                for p_, o_ in watched:
                    h_ = hist[id(o_)]
                    n_ = len(o_)
                    if n_ < h_[3]:
                        h_[4] = max(h_[4], h_[3])   # the container shrank: it held h_[3] entries just before (cleared / trimmed when full)
                    h_[3] = n_
                    if i % 100 == 99:
                        h_[2].append(n_)
                        try:
                            h_.append(repr(next(iter(o_)))[:80])   # the oldest entry: it changes while the length stays put in a FIFO / LRU cache
                        except StopIteration:
                            h_.append('')
        bounded = []
        for h_ in hist.values():
            path, o, lens, last, before_drop = h_[:5]
            oldest = h_[5:]
            if before_drop:
                bounded.append((path, o, before_drop))
            elif len(lens) >= 20 and len(set(oldest)) > 1:   # the oldest entry was replaced although nothing shrank: a rotating (FIFO / LRU) cache
                bounded.append((path, o, max(lens)))
        ctx.counters['pressure_fill_calls'] = min(spec['fill'], len(fillers))
        ctx.counters['containers_watched_under_pressure'] = len(hist)
        ctx.counters['bounded_caches_found'] = len(bounded)
        for path, o, cap_ in bounded:
            ctx.note('bounded cache under pressure: %s capacity %d' % (path, cap_))
            ctx.setadd('bounded_caches', path.split('[')[0])
        inj = sched.Injector(a5dir)
        for path, K, C in bounded[:3]:
            for an in ('c2l_deep', 'c2l_low', 'c2b_seg', 'l2c_mid'):
                A = make_call(a5, cat[an])
                rew.rewind()
                K.clear()
                A()
                j = 0
                while len(K) < C and j < len(fillers) - 1:
                    fillers[j]()
                    j += 1
                if len(K) != C:
                    ctx.note('could not fill %s exactly (%d of %d)' % (path, len(K), C))
                    continue
                snap = [(o, copy.copy(o)) for _, o in state.containers()]

                def restore():
                    for o, c0 in snap:
                        if isinstance(o, list):
                            o[:] = c0
                        else:
                            o.clear()
                            o.update(c0)
                # B = a burst of lookups that were not part of the filling (at least one of them inserts a new entry)
                Bcells = fill_cells[j:j + 24] or fill_cells[:24]
                bname = 'filler_burst'
                cat2 = dict(cat)
                cat2[bname] = ('cell_to_lonlat_burst', [Bcells])
                base2 = dict(base)
                base2[bname] = sched.canon([a5.cell_to_lonlat(x) for x in Bcells])
                restore()
                n = inj.events_in(A, 'line')
                cap = spec['cap'] and max(spec['cap'], 2500 if n <= 2500 else 1500)
                ks = range(1, n + 1) if not cap or n <= cap else sorted({int(ctx.rnd.random() * n / cap + i * n / cap) + 1 for i in range(cap)})
                for k in ks:
                    restore()
                    if inject_pair(a5, sched, inj, cat2, an, bname, 'line', k, ctx, base2, cold='pressure:%s' % path):
                        ctx.count('injections_fired_pressure')
        inj.close()
    elif spec['part'] == 'threads':
        names = sorted(cat)
        ops = [make_call(a5, cat[n]) for n in names]
        # extra geometric operations so that threads do not all hit the same few arguments
        extra = []
        for i in range(40):
            p = (ctx.rnd.uniform(-180, 180), ctx.rnd.uniform(-89.9, 89.9))
            r = ctx.rnd.randint(2, 29) if i % 8 else ctx.rnd.randint(0, 1)
            c = a5.lonlat_to_cell(p, r)
            extra.append(('lonlat_to_cell', [list(p), r]))
            extra.append(('cell_to_lonlat', [c]) if i % 2 else ('cell_to_boundary', [c, {'segments': 2}]))
            extra.append(('u64_to_hex', [c]))
            extra.append(('hex_to_u64', [a5.u64_to_hex(c)]))
            if i % 4 == 0:
                extra.append(('cell_to_parent', [c, max(-1, r - 3)]))
                extra.append(('cell_to_children', [c, min(29, r + 2)]))
                extra.append(('get_resolution', [c]))
        for nm in ('l2c_exact_pole', 'l2c_seam_meridian', 'l2c_face_centre', 'l2c_edge_mid'):
            for rr in (6, 14, 23):
                extra.append(('lonlat_to_cell', [cat[nm][1][0], rr]))
        ops += [make_call(a5, s) for s in extra]
        expected = [sched.canon(f()) for f in ops]
        res = sched.thread_stress(ops, expected, spec['threads'], spec['seconds'], '%s/%s' % (spec['seed'], spec['shard']))
        ctx.case(('threads', spec['threads'], spec['shard']), n=res['ops'])
        ctx.count('thread_ops', res['ops'])
        ctx.count('thread_runs')
        if res['hung']:
            ctx.count('thread_watchdog_expired')
        for wdesc in res['wrong'][:5]:
            i = wdesc['op']
            spec_i = cat[names[i]] if i < len(names) else extra[i - len(names)]
            ctx.fail('thread_wrong_result', {'threads': spec['threads'], 'seconds': spec['seconds'], 'op': spec_i})
        for e in res['exceptions'][:5]:
            i = e['op']
            spec_i = cat[names[i]] if i < len(names) else extra[i - len(names)]
            ctx.fail('thread_exception', {'threads': spec['threads'], 'seconds': spec['seconds'], 'op': spec_i}, exc=e['exc'])
        ctx.sample({'threads': spec['threads'], 'ops_completed': res['ops'], 'per_thread': res['per_thread'][:4]})
    else:
        # diagnostic write footprint of warm calls (which shared objects does a repeated call rewrite?)
        conts = state.containers()
        for n, s in sorted(cat.items()):
            f = make_call(a5, s)
            f()
            before = state.fingerprint(conts)
            f()
            after = state.fingerprint(conts)
            d = state.diff(before, after)
            ctx.case(('footprint', n), nontrivial=False)
            if d:
                ctx.note('warm call %s rewrites shared objects: %s' % (n, d[:8]))
                ctx.count('warm_calls_writing_shared_state')
        ctx.counters['shared_containers_inventoried'] = len(conts)
        ctx.sample({'shared_containers': len(conts)})


def finalize(m, tier):
    inc = []
    c = m['counters']
    if c.get('injections_fired_line', 0) < 5000 or c.get('injections_fired_instruction', 0) < 500:
        inc.append('too few injections fired')
    if c.get('injections_fired_cold', 0) < 300:
        inc.append('too few cold-start injections fired')
    if c.get('handover_schedules_interleaved', 0) < 500:
        inc.append('too few hand-over schedules interleaved')
    if c.get('handover_watchdog', 0) > 20:
        inc.append('hand-over watchdog fired %d times' % c.get('handover_watchdog', 0))
    if c.get('thread_ops', 0) < 2000:
        inc.append('too few thread operations')
    if c.get('thread_watchdog_expired', 0):
        inc.append('thread watchdog expired')
    return {'inconclusive': inc}


def replay(f, ctx):
    import a5
    from rv import sched, state
    import a5.core.cell, a5.core.compact  # noqa
    rew = state.Rewinder()
    c = f['case']
    if 'A_call' in c:
        a5dir = os.path.dirname(os.path.realpath(a5.__file__))
        cat = {c['A']: tuple(c['A_call']), c['B']: tuple(c['B_call'])}
        base = {n: sched.canon(make_call(a5, s)()) for n, s in cat.items()}
        inj = sched.Injector(a5dir)
        import a5.math.vec3 as m1, a5.geometry.spherical_polygon as m2, a5.geometry.spherical_triangle as m3
        import a5.projections.polyhedral as m4, a5.projections.dodecahedron as m5, a5.geometry.pentagon as m6
        import a5.math.vec2 as m7, a5.math.quat as m8, a5.core.coordinate_transforms as m9, a5.projections.crs as m10
        inj.set_instruction_targets([m1, m2, m3, m4, m5, m6, m7, m8, m9, m10])
        if c.get('mode') == 'handover':
            inj.close()
            ho = sched.Handover(a5dir)
            if c.get('cold'):
                rew.rewind()
            ra, rb, hung = ho.run(make_call(a5, cat[c['A']]), make_call(a5, cat[c['B']]), c['k'], c['j'])
            ho.close()
            for nm, r_, name in (('A', ra, c['A']), ('B', rb, c['B'])):
                if r_ is None or r_[0] == 'exc':
                    ctx.fail('%s_raises' % nm, c, exc=repr(r_))
                elif sched.canon(r_[1]) != base[name]:
                    ctx.fail('%s_wrong_result' % nm, c)
            return
        if c.get('cold') is True:
            rew.rewind()
        else:
            # the sweep ran A (with an earlier injection) right before this one: reproduce that process state
            make_call(a5, cat[c['A']])()
        inject_pair(a5, sched, inj, cat, c['A'], c['B'], c['mode'], c['k'], ctx, base, cold=bool(c.get('cold')))
        if c.get('cold') is True:
            for n2 in (c['A'], c['B']):
                if sched.canon(make_call(a5, cat[n2])()) != base[n2]:
                    ctx.fail('wrong_result_after_cold_schedule', c)
        inj.close()
    else:
        op = make_call(a5, tuple(c['op']))
        other = make_call(a5, ('lonlat_to_cell', [[12.3, 45.6], 12]))
        ops = [op, other]
        expected = [sched.canon(x()) for x in ops]
        res = sched.thread_stress(ops, expected, c['threads'], 10, 'replay')
        for w in res['wrong'][:3]:
            ctx.fail('thread_wrong_result', c)
        for e in res['exceptions'][:3]:
            ctx.fail('thread_exception', c, exc=e['exc'])
