"""C02 - a cell's centre maps back to the same cell."""
import math

ID = 'C02'
NEEDS_GEO_SELFTEST = True
LEDGER_FILES = ['a5/core/cell.py', 'a5/core/hilbert.py', 'a5/core/origin.py', 'a5/core/tiling.py', 'a5/core/serialization.py',
                'a5/projections/dodecahedron.py', 'a5/core/coordinate_transforms.py']
MUST_ENTER = [('a5/core/cell.py', 'cell_to_lonlat'), ('a5/core/cell.py', 'lonlat_to_cell'), ('a5/core/hilbert.py', 's_to_anchor'),
              ('a5/core/hilbert.py', 'ij_to_s'), ('a5/core/origin.py', 'segment_to_quintant'), ('a5/core/origin.py', 'quintant_to_segment')]
RULE = ('cells c: every id of levels 0..5 (quick; 20,472 cells) / 0..7 (thorough; 327,672); structured deep ids for every (face, segment) '
        'with S digit patterns (all-0, all-3, 0333.., 1000.., 1222.., alternating, single deviating digit, runs, random) at r in 6..29 '
        'built through cell_to_children only; cells found at the poles / frame points / antimeridian / dodecahedron edges / seams at every r; runs of index-consecutive deep cells (siblings and cousins) in one process; the same (face, segment, S) at consecutive resolutions back to back. Per cell: cell_to_lonlat '
        'does not raise, lon in [-180,180], lat in [-90,90], the centre is inside the cell own ring by >= 1e-3 cell widths (independent '
        'point-in-ring oracle), lonlat_to_cell(centre, res) == c. distinct = distinct ids; non-trivial = r>=2')
ASSUMPTIONS = ['"strictly inside" is operationalised as margin >= 1e-3 widths (observed minimum is reported)']


def plan(tier, seed):
    top = 5 if tier == 'quick' else 7
    specs = []
    for f in range(12):
        specs.append({'part': 'enum', 'face': f, 'top': top})
    for i in range(4 if tier == 'quick' else 16):
        specs.append({'part': 'deep', 'n': 1800 if tier == 'quick' else 25000})
    for i in range(4 if tier == 'quick' else 16):
        specs.append({'part': 'located', 'n': 2400 if tier == 'quick' else 20000})
    return specs


def eval_cell(a5, geo, c, r, cls, ctx):
    case = {'cell': c, 'r': r, 'cls': cls}
    ctx.case(c, nontrivial=r >= 2)
    ctx.count('%s_%s' % (cls, 'lo' if r < 10 else ('mid' if r < 20 else 'hi')))
    try:
        ll = a5.cell_to_lonlat(c)
    except Exception as e:
        ctx.fail('centre_raises', case, exc=repr(e))
        return
    lon, lat = ll
    if not (-180.0 <= lon <= 180.0):
        ctx.fail('longitude_range', case, lon=lon, lat=lat)
    if not (-90.0 <= lat <= 90.0):
        ctx.fail('latitude_range', case, lon=lon, lat=lat)
        return
    try:
        back = a5.lonlat_to_cell(ll, r)
    except Exception as e:
        ctx.fail('roundtrip_raises', case, centre=ll, exc=repr(e))
        back = None
    if back is not None and back != c:
        ctx.fail('roundtrip', case, centre=ll, back=back)
    try:
        verdict, margin, k = geo.enclosed(lambda kk: a5.cell_to_boundary(c, {'segments': kk, 'closed_ring': True})[:-1], ll, r)
    except Exception as e:
        ctx.fail('boundary_raises', case, exc=repr(e))
        return
    if verdict != 'in' or margin < 1e-3:
        ctx.fail('centre_not_strictly_inside', case, centre=ll, verdict=verdict, margin_w=margin)
    else:
        ctx.mini('centre_margin_w', margin, case)


def run_shard(spec, ctx):
    import a5
    from rv import geo, gen, probe
    probe.count_only([('a5.core.cell', 'cell_to_lonlat'), ('a5.core.cell', 'lonlat_to_cell'), ('a5.core.cell', 'cell_to_boundary')])
    rnd = ctx.rnd
    if spec['part'] == 'enum':
        face = a5.cell_to_children(0, 0)[spec['face']]
        for r in range(0, spec['top'] + 1):
            for c in a5.cell_to_children(face, r):
                eval_cell(a5, geo, c, r, 'enum', ctx)
        ctx.sample({'cell': c, 'r': r, 'centre': a5.cell_to_lonlat(c)})
    elif spec['part'] == 'deep':
        for n in range(spec['n']):
            r = rnd.randint(6, 29)
            c = gen.cell_by_path(a5, n % 12, (n // 12) % 5, gen.digits_pattern(rnd, r - 1))
            eval_cell(a5, geo, c, r, 'pattern', ctx)
            if n % 6 == 0 and r >= 2:
                # a run of index-consecutive cells (all siblings, then the cousins) looked up in one process: neighbouring ids are
                # neighbouring places, which is where a lookup that remembers earlier answers goes wrong
                par = a5.cell_to_parent(c)
                run = a5.cell_to_children(a5.cell_to_parent(par)) if r >= 3 and n % 12 == 0 else [par]
                for pp in run:
                    for sib in a5.cell_to_children(pp):
                        eval_cell(a5, geo, sib, r, 'run', ctx)
            if n % 8 == 3:
                # the same (face, segment, S) at consecutive resolutions, back to back (a coarse-to-fine sweep at one index: S is the
                # digit string read as a number, so these are the cells whose paths differ by leading zero digits), up then down
                digs = gen.digits_pattern(rnd, rnd.randint(0, 5))
                while digs and digs[0] == 0:
                    digs = digs[1:]
                lo = max(2, len(digs) + 1)
                r0 = rnd.randint(lo, 29)
                lad = list(range(r0, min(29, r0 + rnd.randint(1, 5)) + 1))
                for rr in lad + lad[::-1][1:]:
                    cc = gen.cell_by_path(a5, n % 12, (n // 12) % 5, [0] * (rr - 1 - len(digs)) + digs)
                    eval_cell(a5, geo, cc, rr, 'same_index_ladder', ctx)
        ctx.sample({'cell': c, 'r': r, 'centre': a5.cell_to_lonlat(c)})
    else:
        from rv import branch
        bpts = branch.hostile_points(a5, rnd, 120, 100, 60)
        ctx.counters['branch_boundary_points'] = len(bpts)
        for n in range(spec['n']):
            kind = ('polar', 'frame', 'antimeridian', 'edge', 'seam', 'equator', 'branch')[n % 7]
            if kind == 'branch':
                if not bpts:
                    continue
                r = rnd.choice((29, 28, 27, 26, 25, rnd.randint(2, 24)))
                p = branch.near(rnd, bpts[rnd.randrange(len(bpts))][0], geo.width(r))
            else:
                p, r = gen.point(rnd, a5, kind, rnd.choice((29, 29, 28, 28, 27)) if rnd.random() < 0.4 else None)
            try:
                c = a5.lonlat_to_cell(p, r)
            except Exception as e:
                ctx.note('locating call raised %r' % (e,))
                continue
            eval_cell(a5, geo, c, r, kind, ctx)
            # and a neighbour reached through the hierarchy: last sibling / first sibling
            if r >= 1 and n % 4 == 0:
                sib = a5.cell_to_children(a5.cell_to_parent(c))
                eval_cell(a5, geo, sib[rnd.randrange(len(sib))], r, kind + '_sibling', ctx)
        ctx.sample({'cell': c, 'r': r, 'centre': a5.cell_to_lonlat(c)})


def finalize(m, tier):
    inc = []
    for k in ('enum_lo', 'pattern_hi', 'polar_hi', 'frame_hi', 'antimeridian_hi', 'edge_hi', 'seam_hi'):
        if m['counters'].get(k, 0) < 200:
            inc.append('class %s below floor' % k)
    return {'inconclusive': inc, 'explanation': 'levels 0..%d enumerated completely' % (5 if tier == 'quick' else 7)}


def replay(f, ctx):
    import a5
    from rv import geo
    c = f['case']
    eval_cell(a5, geo, c['cell'], c['r'], c.get('cls', 'replay'), ctx)
