"""C09 - compact output is the unique minimal, duplicate-free representation."""
import itertools
from . import compact_common as cc

ID = 'C09'
LEDGER_FILES = ['a5/core/compact.py', 'a5/core/serialization.py']
MUST_ENTER = [('a5/core/compact.py', 'compact'), ('a5/core/serialization.py', 'is_first_child'), ('a5/core/serialization.py', 'get_stride')]
RULE = ('antichain inputs X (duplicates allowed, any order): the same exhaustive bounded sub-hierarchy family as C08 (868,428 quick / '
        '18.5M thorough antichains), all orders of <=6-cell cases, the antichain part of random large mixed-level sets; spines (a complete partition of the world or of a random cell refined along one path for up to 30 levels, complete or with one leaf removed / partly refined); a share of the lists is passed sorted ascending / descending. Oracle: '
        'compact(X) has no repeated id, equals canon(X) of the set model as a set (so no complete sibling group is left), is the same '
        'set for a reshuffled / duplicated presentation and compact(compact(X)) == compact(X) as a set. distinct = distinct argument '
        'lists; non-trivial = at least 2 distinct cells')
ASSUMPTIONS = ['hierarchy model built from single-step observations of cell_to_parent (validated by C06)']


def plan(tier, seed):
    n = 16 if tier == 'quick' else 32
    specs = [{'part': 'antichains', 'mod': n, 'rem': i} for i in range(n)]
    specs += [{'part': 'random', 'n': 10 if tier == 'quick' else 150} for _ in range(4 if tier == 'quick' else 16)]
    specs.append({'part': 'perms'})
    return specs


def classify_fields(tree, L):
    """mechanism-level description of an input (used by known-finding predicates, never values)"""
    rs = sorted({tree.res(c) for c in L})
    faces0 = {c for c in L if tree.res(c) == 0}
    deeper_faces = {tree.path(c)[-2] for c in L if tree.res(c) >= 1}
    return {'resolutions': rs, 'has_res0_and_deeper_on_other_face': bool(faces0 and (deeper_faces - faces0))}


def eval_case(a5, tree, L, ctx, case, extra=False):
    try:
        out = a5.compact(list(L))
    except Exception as e:
        ctx.fail('raises', case, exc=repr(e))
        return None
    if len(set(out)) != len(out):
        ctx.fail('repeated_output', case, out=sorted(out)[:20])
    try:
        want = tree.canon(L)
    except Exception as e:
        ctx.note('model failed on input %r' % (e,))
        return out
    if set(out) != want:
        ctx.fail('not_canonical', case, unmerged_or_extra=sorted(set(out) - want)[:8], missing=sorted(want - set(out))[:8],
                 **classify_fields(tree, L))
    if extra:
        L2 = list(L) + [ctx.rnd.choice(L)] if L else []
        ctx.rnd.shuffle(L2)
        try:
            if set(a5.compact(L2)) != set(out):
                ctx.fail('order_or_duplication_dependence', case, other=L2[:40])
            if set(a5.compact(list(out))) != set(out):
                ctx.fail('not_idempotent', case, out=sorted(out)[:20])
        except Exception as e:
            ctx.fail('raises', case, exc=repr(e))
        ctx.count('order_and_idempotence_checks')
    if out and ctx.rnd.random() < 0.03:
        # hostile caller: edit the list that was handed out, then ask again
        keep = list(out)
        out.reverse()
        out.pop()
        out.append(0)
        try:
            again = a5.compact(list(L))
            ctx.count('edit_result_and_repeat')
            if again != keep or again is out:
                ctx.fail('result_depends_on_edited_earlier_result', case, again=again[:20], before=keep[:20])
        except Exception as e:
            ctx.fail('raises', case, exc=repr(e), after_editing_earlier_result=True)
        return keep
    return out


def run_shard(spec, ctx):
    import a5
    from rv import gen, probe
    from rv.tree import Tree
    tree = Tree(a5)
    probe.count_only([('a5.core.compact', 'compact'), ('a5.core.serialization', 'cell_to_parent')])
    rnd = ctx.rnd
    if spec['part'] == 'antichains':
        sh = cc.sub_hierarchy(a5, spec['seed'])
        cfgs = cc.other_configs_quick(sh['others']) if ctx.tier == 'quick' else cc.other_configs_thorough(sh['others'])
        n = 0
        for ia, xa in enumerate(sh['acA']):
            if ia % spec['mod'] != spec['rem']:
                continue
            for xb in sh['acB']:
                for oc in cfgs:
                    X = xa + xb + oc
                    L = cc.presentations(rnd, X, tree, False)
                    ctx.case(tuple(L), nontrivial=len(X) >= 2)
                    n += 1
                    eval_case(a5, tree, L, ctx, {'cells': L}, extra=(n % 8 == 0))
        ctx.count('antichain_cases', n)
        if spec['rem'] == 0:
            for L in ([0], [], list(sh['faces'])):
                ctx.case(tuple(L), nontrivial=False)
                eval_case(a5, tree, L, ctx, {'cells': L})
        for _ in range(6000 if ctx.tier == 'quick' else 20000):
            X = rnd.choice(sh['acA']) + rnd.choice(sh['acB']) + tuple(o for o in sh['others'] if rnd.random() < 0.5)
            L = cc.presentations(rnd, X, tree, False)
            ctx.case(tuple(L), nontrivial=len(X) >= 2)
            ctx.count('random_product_cases')
            eval_case(a5, tree, L, ctx, {'cells': L}, extra=True)
        ctx.sample({'cells': L, 'compact': a5.compact(list(L))})
    elif spec['part'] == 'random':
        for _ in range(60 * spec['n']):
            X = list(tree.antichain(cc.head_cascade(rnd, a5, gen)))
            L = cc.presentations(rnd, X, tree, False)
            ctx.case(tuple(L), nontrivial=True)
            ctx.count('head_cascade_cases')
            eval_case(a5, tree, L, ctx, {'cells': L}, extra=True)
        for _ in range(60 * spec['n']):
            X = list(tree.antichain(cc.small_mixed(rnd, a5, gen)))
            L = cc.presentations(rnd, X, tree, False)
            ctx.case(tuple(L), nontrivial=True)
            ctx.count('small_mixed_cases')
            eval_case(a5, tree, L, ctx, {'cells': L}, extra=True)
        for _ in range(40 * spec['n']):
            X, root = cc.spine_case(rnd, a5, gen)
            L = cc.presentations(rnd, X, tree, False)
            ctx.case(tuple(L), nontrivial=True)
            ctx.count('spine_cases')
            eval_case(a5, tree, L, ctx, {'cells': L}, extra=True)
        for _ in range(spec['n']):
            L = list(tree.antichain(cc.random_large(rnd, a5, gen)))
            L += [rnd.choice(L) for _ in range(5)]
            rnd.shuffle(L)
            ctx.case(tuple(L), nontrivial=True)
            ctx.count('random_large_cases')
            ctx.count('random_large_cells', len(L))
            eval_case(a5, tree, L, ctx, {'cells': L, 'n_cells': len(L)}, extra=True)
        ctx.sample({'n_cells': len(L), 'first': L[:6]})
    else:
        for rep in range(3 if ctx.tier == 'quick' else 12):
            for base in cc.small_perm_cases(a5, rnd, gen):
                base = list(tree.antichain(base))
                outs = set()
                for perm in itertools.permutations(base):
                    ctx.case(perm, nontrivial=True)
                    ctx.count('permutation_cases')
                    out = eval_case(a5, tree, list(perm), ctx, {'cells': list(perm)})
                    if out is not None:
                        outs.add(frozenset(out))
                if len(outs) > 1:
                    ctx.fail('order_or_duplication_dependence', {'cells': base}, n_distinct_results=len(outs))
        ctx.sample({'cells': list(perm)})


def finalize(m, tier):
    inc = []
    if m['counters'].get('antichain_cases', 0) < 800000:
        inc.append('antichain enumeration incomplete')
    return {'inconclusive': inc,
            'explanation': 'the bounded sub-hierarchy family is enumerated completely for the stated other-face configurations'}


def replay(f, ctx):
    import a5
    from rv.tree import Tree
    eval_case(a5, Tree(a5), f['case']['cells'], ctx, f['case'], extra=True)
