#!/usr/bin/env python3
"""Regenerates MANIFEST.json from the table below (checks whose module exists are claimed)."""
import json, os
V = os.path.dirname(os.path.dirname(os.path.abspath(__file__)))
T = {
 'C01': ('geo-monitor', 'post-condition monitor on lonlat_to_cell with an independent spherical point-in-ring oracle under hostile point workloads', '5/C01'),
 'C02': ('geo-monitor', 'round-trip and range monitor on cell_to_lonlat / lonlat_to_cell over exhaustive low levels and structured deep ids', '5/C02'),
 'C03': ('geo-monitor', 'manifold certificate (edge pairing, Euler characteristic, area sum) over complete levels plus local edge/neighbour certificates observed through cell_to_boundary and lonlat_to_cell', '5/C03'),
 'C04': ('geo-monitor', 'area monitor: converged equal-area-plane area of observed boundary rings against 4*pi/N with an explicit convergence envelope', '5/C04'),
 'C05': ('id-monitor', 'post-condition monitors on serialize/deserialize/get_resolution with a run-wide id->cell collision table, exhaustive low levels, ambient probes', '5/C05'),
 'C06': ('id-monitor', 'hierarchy monitor: children/parent post-conditions against exhaustive level enumerations and range probing', '5/C06'),
 'C07': ('geo-monitor', 'drift monitor on random and adversarial (beam-search) descent paths with great-circle distances from an independent oracle', '5/C07'),
 'C08': ('id-monitor', 'reference-model monitor: compact output compared with a set model of the hierarchy over exhaustively enumerated antichains and random multisets', '5/C08'),
 'C09': ('id-monitor', 'reference-model monitor: compact output compared with the canonical minimal antichain, order/duplication/idempotence checks', '5/C09'),
 'C10': ('id-monitor', 'block-structure monitor on uncompact against the hierarchy model, argument-immutability snapshots', '5/C10'),
 'C11': ('geo-monitor', 'distance monitors on point->cell centre and centre->corner distances with an independent authalic great-circle oracle', '5/C11'),
 'C12': ('geo-monitor', 'ring well-formedness monitor over all option combinations (count, closure, orientation, simplicity, longitude continuity)', '5/C12'),
 'C13': ('geo-monitor', 'round-trip monitor on DodecahedronProjection.forward/inverse on nearest and adjacent faces, barycentric domain sampling', '5/C13'),
 'C14': ('geo-monitor', 'area-ratio monitor on DodecahedronProjection.inverse for densified planar polygons with a convergence envelope', '5/C14'),
 'C15': ('geo-monitor', 'reference-function monitor: authalic conversion against the exact closed form (validated against 50-digit mpmath each run)', '5/C15'),
 'C16': ('scheduler', 'deterministic preemption injection via sys.monitoring (context bound 2) plus real-thread stress with result comparison against single-threaded baselines', '5/C16'),
 'C17': ('history-monitor', 'history monitor: every call in random histories compared bit-for-bit with a fresh-interpreter oracle; argument snapshots; state rewinds', '5/C17'),
 'C18': ('id-monitor', 'round-trip and planar-manifold monitors on s_to_anchor / ij_to_s / get_pentagon_vertices over exhaustive low levels and digit-pattern-directed deep indices', '5/C18'),
 'C19': ('id-monitor', 'round-trip / canonical-form monitor on hex conversion, exhaustive 16-bit-lane family plus structured and random values', '5/C19'),
 'C20': ('id-monitor', 'complete enumeration of the finite metadata domain against observed hierarchy sizes', '5/C20'),
}
base = json.load(open('/root/.vp/BASELINE.json'))['cmd'].replace('--junitxml=<file>', '').strip()
checks, na = [], []
for pid, (engine, tech, ref) in T.items():
    if not os.path.exists(os.path.join(V, 'rv', 'checks', pid.lower() + '.py')):
        na.append({'property_id': pid, 'reason': 'check not built yet (planned, see DESIGN.md section %s)' % ref})
        continue
    checks.append({
        'property_id': pid,
        'quick_cmd': './vcheck %s quick' % pid,
        'thorough_cmd': './vcheck %s thorough' % pid,
        'evidence_file': 'evidence/%s.json' % pid,
        'replay_cmd_template': './vcheck replay {path}',
        'engine': engine,
        'level_claimed': {'category': 'exploration',
                          'text': 'runtime monitoring: the property held on every execution of the real a5 code that this run '
                                  'produced and observed (counts per input class in the evidence); nothing is claimed for inputs, '
                                  'schedules or histories not executed', 'design_ref': 'DESIGN.md section ' + ref},
        'level_note': 'trusted base: CPython 3.12 (/venv), the stdlib-only oracles in rv/geo.py and rv/tree.py (self-tested every run), '
                      'a5 imported from the working tree of /repo (asserted in every shard)',
        'technique': 'runtime monitoring: ' + tech,
    })
m = {
 'version': 1,
 'setup_cmd': './vcheck setup',
 'hooks': {'guard': 'A5_PY_VERIF', 'enable': 'none required - monitors attach from outside the repository (function rebinding, sys.monitoring, state snapshots); no source commit uses the guard',
           'baseline_off_cmd': base, 'source_commits': [], 'add_only': True},
 'engines': [
  {'name': 'geo-monitor', 'path': 'rv/geo.py', 'serves_properties': [p for p, t in T.items() if t[0] == 'geo-monitor'], 'kind_free_text': 'independent spherical-geometry oracles observing real a5 calls'},
  {'name': 'id-monitor', 'path': 'rv/tree.py', 'serves_properties': [p for p, t in T.items() if t[0] == 'id-monitor'], 'kind_free_text': 'post-condition / reference-model monitors on ids and hierarchy'},
  {'name': 'scheduler', 'path': 'rv/sched.py', 'serves_properties': ['C16'], 'kind_free_text': 'sys.monitoring preemption injector and real-thread stressor'},
  {'name': 'history-monitor', 'path': 'rv/fresh.py', 'serves_properties': ['C17'], 'kind_free_text': 'fresh-interpreter oracle over recorded call histories'},
 ],
 'checks': checks,
 'notes': 'All checks: exit 0 held / 1 VIOLATION / 2 INCONCLUSIVE (never expected on the unchanged tree). VERIF_SEED, VERIF_TIER, VERIF_REPO honoured.',
 'not_applicable': na,
}
json.dump(m, open(os.path.join(V, 'MANIFEST.json'), 'w'), indent=1)
print(len(checks), 'claimed', len(na), 'not claimed')
