"""C19 - hex text form of an id round-trips for every 64-bit value."""
import re

ID = 'C19'
LEDGER_FILES = ['a5/core/hex.py']
MUST_ENTER = [('a5/core/hex.py', 'hex_to_u64'), ('a5/core/hex.py', 'u64_to_hex')]
RULE = ('n in [0,2^64): every value of each 16-bit lane with the other lanes all-0 / all-1 (exhaustive family), '
        'single bits, 2^k+-1, ids of every enumerated cell r<=4 and structured deep cells, random 64-bit values, ids built from repeated / exchanged 32- and 16-bit words formatted back to back, a third of all values first parsed from a zero-padded upper-case spelling and formatted afterwards, 6 concurrent threads converting different ids (1 us switch interval); '
        'each n checked for hex_to_u64(u64_to_hex(n))==n, canonical lower-case form, injectivity via a string->n map, '
        'upper-case and zero-padded parsing. distinct = distinct n; non-trivial = n >= 16 (more than one hex digit)')
ASSUMPTIONS = ['Python int(s,16)/hex() are the trusted primitives the oracle compares against only through the round trip',
               'values outside [0,2^64) are outside the property']
CANON = re.compile(r'^(0|[1-9a-f][0-9a-f]*)$')
M64 = (1 << 64) - 1


def plan(tier, seed):
    nrand = 60000 if tier == 'quick' else 300000
    specs = [{'part': 'lane', 'lane': l, 'fill': f} for l in range(4) for f in (0, 1)]
    specs.append({'part': 'structured'})
    specs.append({'part': 'words', 'n': 20000 if tier == 'quick' else 200000})
    specs.append({'part': 'threads', 'seconds': 4 if tier == 'quick' else 30})
    for i in range(7):
        specs.append({'part': 'random', 'n': nrand})
    return specs


def check(n, ctx, a5, seen):
    ctx.case(n, nontrivial=n >= 16)
    if n % 3 == 0 and n not in seen.get('_parsed_first', ()):
        # hostile order: the id is first met as text in a non-canonical spelling (zero padded, upper case), formatted afterwards
        seen.setdefault('_parsed_first', set()).add(n)
        try:
            if a5.hex_to_u64('%016X' % n) != n or a5.hex_to_u64('%016x' % n) != n:
                ctx.fail('zero_padded_parse', {'n': n}, text='%016X' % n)
        except Exception as e:
            ctx.fail('parse_raises', {'n': n}, exc=repr(e))
        ctx.count('parsed_before_formatted')
    try:
        s = a5.u64_to_hex(n)
        back = a5.hex_to_u64(s)
    except Exception as e:
        ctx.fail('raises', {'n': n}, exc=repr(e))
        return
    if back != n:
        ctx.fail('roundtrip', {'n': n}, text=s, back=back)
    if not isinstance(s, str) or not CANON.match(s):
        ctx.fail('not_canonical', {'n': n}, text=s)
    else:
        prev = seen.get(s)
        if prev is not None and prev != n:
            ctx.fail('collision', {'n': n}, text=s, other=prev)
        if len(seen) < 400000:
            seen[s] = n
        try:
            if a5.u64_to_hex(n) != s:
                ctx.fail('format_depends_on_history', {'n': n}, first=s, again=a5.u64_to_hex(n))
        except Exception as e:
            ctx.fail('raises', {'n': n}, exc=repr(e))
        try:
            if a5.hex_to_u64(s.upper()) != n:
                ctx.fail('upper_case_parse', {'n': n}, text=s.upper())
            if a5.hex_to_u64(s.rjust(16, '0')) != n or a5.hex_to_u64('0' + s) != n:
                ctx.fail('zero_padded_parse', {'n': n}, text=s.rjust(16, '0'))
            if n % 7 == 0 and (a5.hex_to_u64('000' + s.rjust(16, '0')) != n or a5.hex_to_u64(s.upper().rjust(24 + n % 41, '0')) != n):
                ctx.fail('zero_padded_parse', {'n': n}, text='000' + s.rjust(16, '0'))
        except Exception as e:
            ctx.fail('parse_raises', {'n': n}, exc=repr(e))


def run_shard(spec, ctx):
    import a5
    seen = {}
    part = spec['part']
    if part == 'lane':
        lane, fill = spec['lane'], spec['fill']
        base = (M64 if fill else 0) & ~(0xffff << (16 * lane))
        for v in range(65536):
            check(base | (v << (16 * lane)), ctx, a5, seen)
        ctx.count('lane_values', 65536)
        ctx.sample({'n': base | (0xbeef << (16 * lane)), 'hex': a5.u64_to_hex(base | (0xbeef << (16 * lane)))})
    elif part == 'structured':
        for k in range(64):
            for n in ((1 << k), (1 << k) - 1, ((1 << k) + 1) & M64, M64 ^ (1 << k), M64 >> k, (M64 << k) & M64):
                check(n, ctx, a5, seen)
                ctx.count('bit_boundary_values')
        for r in range(0, 5):
            for c in a5.cell_to_children(0, r):
                check(c, ctx, a5, seen)
                ctx.count('cell_ids')
        # deep ids: every (face, segment-ish top6) with a marker at each resolution
        for top6 in range(60):
            for r in range(2, 30):
                shift = 58 - 2 * (r - 1)
                for S in (0, (1 << (2 * (r - 1))) - 1, ctx.rnd.getrandbits(2 * (r - 1))):
                    n = (top6 << 58) | (S << shift) | (1 << (shift - 1))
                    check(n, ctx, a5, seen)
                    ctx.count('deep_id_shapes')
    elif part == 'words':
        # ids built from repeated / exchanged 32-bit and 16-bit words, formatted right after each other
        for _ in range(spec['n']):
            W = ctx.rnd.getrandbits(ctx.rnd.choice((4, 12, 20, 27, 28, 32)))
            x, y = ctx.rnd.getrandbits(32), ctx.rnd.getrandbits(ctx.rnd.choice((8, 28, 32)))
            for n in ((W << 32) | W, (W << 32) | x, (y << 32) | W, W, W << 32, (W << 48) | (W << 16), ((W & 0xffff) * 0x0001000100010001) & M64):
                check(n & M64, ctx, a5, seen)
        ctx.count('word_structured_values', 7 * spec['n'])
        ctx.sample({'n': n, 'hex': a5.u64_to_hex(n)})
    elif part == 'threads':
        # concurrent callers converting DIFFERENT ids: the round trip holds for every n no matter who else is converting
        import sys
        import threading
        import time
        old = sys.getswitchinterval()
        sys.setswitchinterval(1e-6)
        stop = time.time() + spec['seconds']
        bad = []
        done = [0] * 6

        def worker(t):
            import random
            rnd = random.Random('%s/%s' % (spec['seed'], t))
            while time.time() < stop:
                n = rnd.getrandbits(rnd.choice((64, 64, 40, 16)))
                try:
                    s = a5.u64_to_hex(n)
                    if s != '%x' % n or a5.hex_to_u64(s) != n:
                        if len(bad) < 10:
                            bad.append((n, s))
                except Exception as e:
                    if len(bad) < 10:
                        bad.append((n, repr(e)))
                done[t] += 1
        ts = [threading.Thread(target=worker, args=(t,), daemon=True) for t in range(6)]
        for t in ts:
            t.start()
        for t in ts:
            t.join(timeout=spec['seconds'] * 10 + 60)
        sys.setswitchinterval(old)
        ctx.case(('threads', spec['shard']), n=sum(done))
        ctx.count('concurrent_conversions', sum(done))
        for n, s in bad:
            ctx.fail('wrong_under_concurrent_callers', {'n': n, 'threads': 6}, got=s)
        ctx.sample({'threads': 6, 'conversions': sum(done)})
    else:
        for _ in range(spec['n']):
            bits = ctx.rnd.choice((64, 64, 64, 48, 32, 17, 8))
            n = ctx.rnd.getrandbits(bits)
            check(n, ctx, a5, seen)
        ctx.count('random_values', spec['n'])
        ctx.sample({'n': n, 'hex': a5.u64_to_hex(n)})


def finalize(m, tier):
    inc = []
    if m['counters'].get('lane_values', 0) != 8 * 65536:
        inc.append('lane family incomplete')
    return {'inconclusive': inc, 'exhaustive': False,
            'explanation': 'the 16-bit-lane family (8 x 65,536 values) is enumerated completely; the 2^64 domain is sampled'}


def replay(f, ctx):
    import a5
    check(f['case']['n'], ctx, a5, {})
