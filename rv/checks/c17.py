"""C17 - every API call is a pure function of its arguments."""
import copy
import os
import tempfile
import shutil

ID = 'C17'
LEDGER_FILES = ['a5/projections/dodecahedron.py', 'a5/projections/polyhedral.py', 'a5/geometry/spherical_polygon.py', 'a5/projections/crs.py',
                'a5/core/origin.py', 'a5/core/compact.py', 'a5/core/cell.py']
MUST_ENTER = [('a5/projections/dodecahedron.py', 'get_face_triangle'), ('a5/projections/dodecahedron.py', 'get_spherical_triangle'),
              ('a5/projections/polyhedral.py', '_get_triangle_constants'), ('a5/core/compact.py', 'compact'), ('a5/core/compact.py', 'uncompact')]
FUNCS = ['lonlat_to_cell', 'cell_to_lonlat', 'cell_to_boundary', 'cell_to_boundary_opts', 'cell_to_children', 'cell_to_parent', 'get_resolution',
         'get_res0_cells', 'get_num_cells', 'cell_area', 'compact', 'uncompact', 'u64_to_hex', 'hex_to_u64']
RULE = ('histories: random interleavings of all 13 exported functions over all faces (uniform, polar, antimeridian, frame points; reflected '
        'triangle and cross-face calls), executed in one process with caches cold (full state rewind), partially warm (partial rewind of the '
        'inventoried containers) and warm; every call: arguments deep-copied and compared after the call, returned lists scrambled by the '
        'harness, earlier calls repeated later in the same history and compared bit-for-bit; a subset of the distinct calls of each history '
        '(quick 1.5k, thorough 100k in total) is re-executed alone in a FRESH interpreter and compared bit-for-bit (float.hex). '
        'Every history contains a world-cell group and a large fan-out (4^6 / 4^7 ids from one call) with calls on the same id before and after it. Constants (pattern tables, origin tables, orientation lists) are fingerprinted before/after. distinct = distinct (function, args); '
        'non-trivial = calls compared against the fresh-interpreter oracle')
ASSUMPTIONS = ['a fresh CPython process importing a5 from the same tree is the ground truth for "what a fresh interpreter would return"',
               'state rewind restores lists / dicts / instance dicts reachable from a5 module globals (depth 5)']
CONSTANT_PREFIXES = ['a5.core.hilbert:PATTERN', 'a5.core.origin:origins', 'a5.core.origin:QUINTANT', 'a5.core.origin:clockwise',
                     'a5.core.origin:counter', 'a5.core.origin:ORIGIN_ORDER', 'a5.core.tiling:QUINTANT_ROTATIONS', 'a5.core.pentagon:',
                     'a5.core.dodecahedron_quaternions:', 'a5.projections.authalic:']


def plan(tier, seed):
    if tier == 'quick':
        return [{'histories': 3, 'calls': 60, 'fresh_per_history': 36} for _ in range(16)]
    return [{'histories': 50, 'calls': 120, 'fresh_per_history': 125} for _ in range(16)]


_LAST = {}
_SHARED_LL = [0.0, 0.0]


def gen_call(rnd, a5, gen):
    k = rnd.choice(FUNCS)
    kind = rnd.choice(('uniform', 'polar', 'antimeridian', 'frame', 'frame', 'edge', 'seam'))
    if kind == 'frame' and _LAST.get('frame') is not None and rnd.random() < 0.5:
        # stay at the frame point of the previous call but land on another side of it: consecutive lookups that straddle a face
        # edge / vertex / centre are where 'remember the previous answer' shortcuts go wrong
        i = _LAST['frame']
        p, r = gen.p_frame(rnd, i, -9, -4), (_LAST['r'] if rnd.random() < 0.5 else rnd.randint(0, 29))
    elif kind == 'frame':
        i = rnd.randrange(62)
        p, r = gen.p_frame(rnd, i, -9, -4) if rnd.random() < 0.5 else gen.p_frame(rnd, i), rnd.randint(0, 29)
        _LAST['frame'], _LAST['r'] = i, r
    else:
        p, r = gen.point(rnd, a5, kind)
    p = (float(p[0]), float(p[1]))
    if k == 'lonlat_to_cell':
        return ('lonlat_to_cell', [list(p), r if rnd.random() > 0.02 else -1])
    c = a5.lonlat_to_cell(p, r)
    if rnd.random() < 0.04:
        # the world cell is a valid argument of every hierarchy / geometry function
        c, r = 0, -1
        if k == 'cell_to_parent':
            return (k, [c, -1])
        if k == 'compact':
            return (k, [[0] + ([a5.cell_to_children(0, 0)[rnd.randrange(12)]] if rnd.random() < 0.5 else [])])
        if k == 'uncompact':
            return (k, [[0], rnd.randint(0, 2)])
        if k == 'cell_to_children':
            return (k, [0, rnd.randint(-1, 2)])
    if k == 'cell_to_lonlat':
        return (k, [c])
    if k == 'cell_to_boundary':
        return (k, [c])
    if k == 'cell_to_boundary_opts':
        o = {}
        if rnd.random() < 0.8:
            o['segments'] = rnd.choice([1, 2, 3, 'auto', None, 1, 2, 3, 'auto', None, 0, -1])
        if rnd.random() < 0.6:
            o['closed_ring'] = rnd.choice([True, False])
        return ('cell_to_boundary', [c, o])
    if k == 'cell_to_children':
        return (k, [c, min(29, r + (rnd.choice((5, 6, 6, 7)) if rnd.random() < 0.06 else rnd.randint(0, 2)))])
    if k == 'cell_to_parent':
        return (k, [c, rnd.randint(-1, r)])
    if k == 'get_resolution':
        return (k, [c])
    if k == 'get_res0_cells':
        return (k, [])
    if k in ('get_num_cells', 'cell_area'):
        return (k, [r])
    if k == 'compact':
        ch = a5.cell_to_children(c, min(29, r + rnd.randint(1, 2)))
        rnd.shuffle(ch)
        if rnd.random() < 0.3:
            ch = ch[:-1] + [c]
        return (k, [ch])
    if k == 'uncompact':
        if rnd.random() < 0.06:
            return (k, [[c, a5.cell_to_children(a5.cell_to_parent(c))[-1]] if r > 0 and rnd.random() < 0.5 else [c], min(29, r + rnd.choice((4, 5, 6)))])
        return (k, [[c, c] if rnd.random() < 0.2 else [c], min(29, r + rnd.randint(0, 2))])
    if k == 'u64_to_hex':
        return (k, [c])
    return ('hex_to_u64', [a5.u64_to_hex(c)])


def execute(a5, call, ctx, fresh_mod):
    """runs the call in this process; returns canonical outcome; checks argument immutability; scrambles returned lists"""
    f, a = call
    if f == 'lonlat_to_cell' and (hash(repr(a)) % 3 == 0):
        # a caller that keeps ONE mutable [lon, lat] list and refills it for every lookup
        _SHARED_LL[0], _SHARED_LL[1] = a[0][0], a[0][1]
        args = [_SHARED_LL, a[1]]
        ctx.count('lookups_through_a_reused_list')
    else:
        args = [tuple(a[0]), a[1]] if f == 'lonlat_to_cell' else copy.deepcopy(a)
    snap = copy.deepcopy(args)
    try:
        res = getattr(a5, f)(*args)
        out = ['ok', fresh_mod.enc(res)]
    except Exception as e:
        res = None
        out = ['exc', type(e).__name__ + ': ' + str(e)]
    if args != snap or [type(x) for x in args] != [type(x) for x in snap]:
        ctx.fail('argument_modified', {'call': [f, a]}, now=repr(args)[:300])
    if isinstance(res, list):
        if any(res is x for x in args):
            ctx.fail('returns_argument_object', {'call': [f, a]})
        # hostile caller: scramble what was returned
        res.reverse()
        res.append('garbage')
        if len(res) > 2:
            del res[0]
    return out


def run_history(a5, gen, state, fresh_mod, rew, spec, ctx, repo, pyc):
    from rv import geo
    rnd = ctx.rnd
    mode = rnd.choice(('cold', 'partial', 'warm'))
    if mode == 'cold':
        rew.rewind()
    groups = []
    while sum(len(g) for g in groups) < spec['calls']:
        if rnd.random() < 0.12:
            # two or three lookups that straddle one frame point (face edge midpoint / vertex / centre), executed back to back:
            # consecutive lookups on both sides of a face boundary are where 'remember the previous answer' shortcuts go wrong
            i = rnd.randrange(62)
            r = rnd.choice((0, 1, 29, 29, 28, rnd.randint(20, 29), rnd.randint(20, 29), rnd.randint(2, 19)))
            g = []
            lo_, hi_ = rnd.choice(((-12, -4), (-12, -9), (-9, -4)))
            for _ in range(rnd.choice((2, 3))):
                p = gen.p_frame(rnd, i, lo_, hi_)
                g.append(('lonlat_to_cell', [[float(p[0]), float(p[1])], r]))
            if rnd.random() < 0.4:
                pe = geo.vec_to_ll(gen.FRAME[i][1])    # the frame point itself, after lookups on either side of it
                g.insert(rnd.randint(1, len(g)), ('lonlat_to_cell', [[float(pe[0]), float(pe[1])], r]))
            groups.append(g)
            ctx.count('straddling_lookup_groups')
        elif rnd.random() < 0.08:
            # a point inside a cell, then the corners and edge points of THAT cell (points that lie on the boundary of the cell the
            # previous call returned), then the inside point again
            rr = rnd.randint(2, 29)
            p0 = gen.p_uniform(rnd) if rnd.random() < 0.7 else gen.p_edge(rnd)
            c0 = a5.lonlat_to_cell(p0, rr)
            ring = a5.cell_to_boundary(c0, {'segments': 2, 'closed_ring': False})
            ctr = a5.cell_to_lonlat(c0)
            g = [('lonlat_to_cell', [[float(ctr[0]), float(ctr[1])], rr])]
            for vtx in rnd.sample(ring, 4):
                g.append(('lonlat_to_cell', [[float(vtx[0]), float(vtx[1])], rr]))
                if rnd.random() < 0.5:
                    g.append(('lonlat_to_cell', [[float(ctr[0]), float(ctr[1])], rr]))
            groups.append(g)
            ctx.count('boundary_point_groups')
        elif rnd.random() < 0.12:
            # a family: a structured deep cell (first / last positions of a segment, digit patterns), its ancestors at coarse
            # levels and a sibling, with geometry calls on each, executed back to back in a random order
            rr = rnd.choice((29, 29, 28, rnd.randint(6, 29)))
            face, seg = rnd.randrange(12), rnd.randrange(5)
            digs = gen.digits_pattern(rnd, rr - 1, rnd.choice(('zero', 'three', '0333', '1000', 'single', 'random')))
            if rnd.random() < 0.5:
                digs[-1] = rnd.randrange(4)
            deep = gen.cell_by_path(a5, face, seg, digs)
            fam = [deep] + [a5.cell_to_parent(deep, q) for q in sorted({1, 2, 2, rnd.randint(2, 5)})]
            fam.append(a5.cell_to_children(a5.cell_to_parent(deep))[rnd.randrange(4)])
            g = []
            for cfam in fam:
                fn = rnd.choice(('cell_to_lonlat', 'cell_to_boundary', 'cell_to_boundary'))
                g.append((fn, [cfam] if fn == 'cell_to_lonlat' or rnd.random() < 0.3 else [cfam, {'segments': rnd.choice((1, 1, 2, 'auto'))}]))
            rnd.shuffle(g)
            if rnd.random() < 0.5:
                g.append(g[0])
            groups.append(g)
            ctx.count('family_groups')
        elif rnd.random() < 0.06:
            # coarse cells: every option combination on a resolution-0 / resolution-1 cell and on a second cell of another face
            lowc = rnd.choice(a5.cell_to_children(0, rnd.choice((0, 1, 1))))
            low2 = rnd.choice(a5.cell_to_children(0, a5.get_resolution(lowc)))
            g = []
            for cl in (lowc, low2, lowc):
                o = {'segments': rnd.choice((1, 1, 2, 3))}
                if rnd.random() < 0.5:
                    o['closed_ring'] = rnd.choice((True, False))
                g.append(('cell_to_boundary', [cl, o]))
                g.append(('cell_to_lonlat', [cl]))
            groups.append(g)
            ctx.count('coarse_groups')
        else:
            groups.append([gen_call(rnd, a5, gen)])
    # the world cell is a valid argument everywhere: one group per history, twice each (the first results get scrambled)
    wg = [('cell_to_boundary', [0]), ('cell_to_children', [0, 0]), ('cell_to_lonlat', [0]), ('get_res0_cells', []), ('cell_to_boundary', [0]),
          ('cell_to_children', [0, 0]), ('get_res0_cells', []), ('cell_to_parent', [0, -1]), ('get_resolution', [0])]
    groups.append(wg)
    # a large fan-out (4^6 / 4^7 ids from one call) in every history, with geometry and hierarchy calls on the same id before and
    # after it, back to back
    rr_ = rnd.randint(0, 22)
    cfo = gen.random_cell(rnd, a5, rr_)
    up = rr_ + rnd.choice((6, 6, 7))
    groups.append([('cell_to_lonlat', [cfo]), ('cell_to_children', [cfo, up]) if rnd.random() < 0.7 else ('uncompact', [[cfo], up]),
                   ('cell_to_lonlat', [cfo]), ('cell_to_boundary', [cfo]), ('cell_to_children', [cfo, rr_ + 1]),
                   ('cell_to_parent', [cfo, max(-1, rr_ - 1)]), ('get_resolution', [cfo])])
    ctx.count('fan_out_groups')
    if mode == 'cold':
        rew.rewind()  # generation warmed the caches again
    results = {}
    rnd.shuffle(groups)
    calls = [c for g in groups for c in g]
    order = list(range(len(calls)))
    for step, i in enumerate(order):
        key = repr(calls[i])
        if mode == 'partial' and rnd.random() < 0.3:
            rew.rewind(rnd, rnd.choice((0.2, 0.5, 1.0)))
            ctx.count('state_rewinds')
        out = execute(a5, calls[i], ctx, fresh_mod)
        ctx.count('history_calls')
        ctx.count('fn_%s' % calls[i][0])
        prev = results.get(key)
        if prev is not None and prev != out:
            ctx.fail('history_dependent_result', {'call': list(calls[i]), 'mode': mode}, first=repr(prev)[:300], later=repr(out)[:300])
        results.setdefault(key, out)
        # repeat an earlier call (after its returned list was scrambled, behind whatever the cache state is now)
        if step > 3 and rnd.random() < 0.25:
            j = order[rnd.randrange(step)]
            out2 = execute(a5, calls[j], ctx, fresh_mod)
            ctx.count('repeat_calls')
            if out2 != results[repr(calls[j])]:
                ctx.fail('history_dependent_result', {'call': list(calls[j]), 'mode': mode}, first=repr(results[repr(calls[j])])[:300],
                         later=repr(out2)[:300])
    # fresh-interpreter oracle for a subset of distinct calls, one interpreter per call
    distinct = list({repr(c): c for c in calls}.values())
    rnd.shuffle(distinct)
    distinct.sort(key=lambda c: 0 if any(c in g for g in groups if len(g) > 1) else 1)
    for c in distinct[:spec['fresh_per_history']]:
        try:
            fr = fresh_mod.run_calls([list(c)], repo, pyc)[0]
        except Exception as e:
            ctx.count('fresh_oracle_failed')
            ctx.note('fresh oracle failed: %r' % (e,))
            continue
        ctx.case(repr(c), nontrivial=True)
        ctx.count('fresh_compared')
        ctx.count('fresh_compared_%s' % mode)
        if fr != results[repr(c)]:
            ctx.fail('differs_from_fresh_interpreter', {'call': list(c), 'mode': mode}, fresh=repr(fr)[:400], history=repr(results[repr(c)])[:400])
    for c in distinct[spec['fresh_per_history']:]:
        ctx.case(repr(c), nontrivial=False)
    ctx.count('histories_%s' % mode)
    return calls


def run_shard(spec, ctx):
    import a5
    from rv import gen, state, fresh as fresh_mod
    repo = os.path.realpath(os.environ.get('VERIF_REPO', '/repo'))
    import a5.core.cell, a5.core.compact  # noqa: make sure everything is loaded before the inventory
    rew = state.Rewinder()
    conts = state.containers()
    fp0 = state.fingerprint(conts)
    pyc = tempfile.mkdtemp(prefix='rv_c17_pyc_')
    try:
        for h in range(spec['histories']):
            calls = run_history(a5, gen, state, fresh_mod, rew, spec, ctx, repo, pyc)
    finally:
        shutil.rmtree(pyc, ignore_errors=True)
    fp1 = state.fingerprint(conts)
    written = state.diff(fp0, fp1)
    for w in written:
        ctx.setadd('containers_written_during_histories', w.split('[')[0])
        if any(w.startswith(pfx) for pfx in CONSTANT_PREFIXES):
            ctx.fail('constant_written', {'path': w})
    ctx.counters['containers_inventoried'] = len(conts)
    ctx.sample({'call': list(calls[0])})
    ctx.sample({'call': list(calls[1])})


def finalize(m, tier):
    inc = []
    c = m['counters']
    if c.get('fresh_compared', 0) < (1000 if tier == 'quick' else 20000):
        inc.append('only %d fresh-interpreter comparisons' % c.get('fresh_compared', 0))
    if c.get('fresh_oracle_failed', 0) > 0.02 * max(1, c.get('fresh_compared', 0)):
        inc.append('%d fresh oracles failed' % c.get('fresh_oracle_failed', 0))
    for md in ('cold', 'partial', 'warm'):
        if c.get('histories_' + md, 0) < 3:
            inc.append('fewer than 3 %s histories' % md)
    for f in ('lonlat_to_cell', 'cell_to_lonlat', 'cell_to_boundary', 'cell_to_children', 'cell_to_parent', 'get_resolution', 'get_res0_cells',
              'get_num_cells', 'cell_area', 'compact', 'uncompact', 'u64_to_hex', 'hex_to_u64'):
        if c.get('fn_' + f, 0) < 20:
            inc.append('function %s called fewer than 20 times' % f)
    return {'inconclusive': inc}


def replay(f, ctx):
    import a5
    from rv import fresh as fresh_mod
    repo = os.path.realpath(os.environ.get('VERIF_REPO', '/repo'))
    c = f['case']
    if 'call' in c:
        call = (c['call'][0], c['call'][1])
        a = execute(a5, call, ctx, fresh_mod)
        b = execute(a5, call, ctx, fresh_mod)
        fr = fresh_mod.run_calls([list(call)], repo)[0]
        print('in-process twice:', repr(a)[:200], repr(b)[:200])
        print('fresh           :', repr(fr)[:200])
        if a != fr or b != fr:
            ctx.fail('differs_from_fresh_interpreter', c)
